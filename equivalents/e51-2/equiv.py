"""equivalence check for refactoring 2: header attributes and the small mapping helpers
of ``ceos_alos2.sar_image.metadata`` (``extract_attrs``, ``apply_overrides``,
``deduplicate_attrs``).

Every case calls the public function, describes the result (types, orders, dtypes) or the
exception, checks that the inputs were not modified, and compares with a recording taken
from the unchanged code.

usage: PYTHONPATH=<worktree> python equiv.py      (or: pytest equiv.py)
"""
import copy
import datetime as dt
import decimal
import fractions
import io as _io

from ceos_alos2.sar_image import io as sar_io
from ceos_alos2.sar_image import metadata

# --------------------------------------------------------------------------
# generic harness: canonical description of results, recording, comparison
# --------------------------------------------------------------------------
import datetime as _dt
import math as _math
import os
import pprint
import sys
import traceback

import numpy as np

from ceos_alos2.array import Array
from ceos_alos2.hierarchy import Group, Variable

_PLAIN = (int, bool, str, bytes, type(None))


def describe(obj):
    """convert a result to nested literals, keeping types and orders visible"""
    t = type(obj)
    if t in _PLAIN:
        return obj
    if t is float:
        if _math.isfinite(obj):
            return obj
        return ("float", repr(obj))
    if t is complex:
        return ("complex", repr(obj))
    if t is tuple:
        return tuple(describe(v) for v in obj)
    if t is list:
        return [describe(v) for v in obj]
    if t is dict:
        return ("dict", [(describe(k), describe(v)) for k, v in obj.items()])
    if t in (set, frozenset):
        return (t.__name__, sorted((describe(v) for v in obj), key=repr))
    if t is _dt.datetime:
        return ("datetime", obj.isoformat())
    if isinstance(obj, np.ndarray):
        return ("ndarray", str(obj.dtype), obj.shape, [str(v) for v in obj.reshape(-1)])
    if isinstance(obj, np.generic):
        return ("npscalar", str(obj.dtype), str(obj))
    if isinstance(obj, np.dtype):
        return ("npdtype", str(obj))
    if t is Array:
        fs = obj.fs
        return (
            "Array",
            ("fs", type(fs).__name__, getattr(fs, "path", None), type(getattr(fs, "fs", None)).__name__),
            ("url", obj.url),
            ("byte_ranges", describe(obj.byte_ranges)),
            ("shape", describe(obj.shape)),
            ("dtype", describe(obj.dtype)),
            ("type_code", obj.type_code),
            ("records_per_chunk", describe(obj.records_per_chunk)),
            ("chunk_offsets", describe(obj.chunk_offsets)),
        )
    if t is Variable:
        return ("Variable", describe(obj.dims), describe(obj.data), describe(obj.attrs))
    if t is Group:
        return ("Group", obj.path, obj.url, describe(obj.data), describe(obj.attrs))
    # subclasses of the builtin types (construct's enum integers / strings, containers)
    for base in (bool, int, float, str, bytes, tuple, list, dict):
        if isinstance(obj, base):
            if base is dict:
                inner = ("dict", [(describe(k), describe(v)) for k, v in obj.items()])
            elif base in (tuple, list):
                inner = base(describe(v) for v in obj)
            else:
                inner = base(obj)
            return ("subclass", t.__name__, inner)
    if hasattr(obj, "__dataclass_fields__"):
        return (
            "dataclass",
            t.__name__,
            [(name, describe(getattr(obj, name))) for name in obj.__dataclass_fields__],
        )
    return ("object", t.__module__, t.__name__, repr(obj))


def outcome(func, *args, **kwargs):
    """call and describe either the result or the exception"""
    try:
        result = func(*args, **kwargs)
    except BaseException as e:  # noqa: B902
        return ("raised", type(e).__module__, type(e).__name__, str(e))
    return ("returned", describe(result))


_BEGIN = "# === BEGIN RECORDED (from the unchanged code; EQUIV_RECORD=1 regenerates) ==="
_END = "# === END RECORDED ==="


def _record(results):
    path = os.path.abspath(__file__)
    with open(path) as f:
        source = f.read()
    head, rest = source.split("\n" + _BEGIN + "\n", 1)
    _, tail = rest.split("\n" + _END + "\n", 1)
    body = "EXPECTED = " + pprint.pformat(results, width=160, compact=True, sort_dicts=False)
    with open(path, "w") as f:
        f.write(head + "\n" + _BEGIN + "\n" + body + "\n" + _END + "\n" + tail)
    print(f"recorded {len(results)} cases")
    return 0


def main():
    import ceos_alos2

    print("ceos_alos2 from", ceos_alos2.__file__)
    try:
        results = compute()
    except BaseException:
        traceback.print_exc()
        print("FAILED: the case driver itself crashed")
        return 1

    if os.environ.get("EQUIV_RECORD") == "1":
        return _record(results)

    failures = []
    if list(results) != list(EXPECTED):
        failures.append(("<case names>", list(EXPECTED), list(results)))
    for name, actual in results.items():
        expected = EXPECTED.get(name)
        if actual != expected:
            failures.append((name, expected, actual))

    for name, expected, actual in failures:
        print(f"MISMATCH in {name}:")
        print("  expected:", pprint.pformat(expected, width=110)[:2000])
        print("  actual:  ", pprint.pformat(actual, width=110)[:2000])
    print(f"{len(results) - len(failures)} of {len(results)} cases identical to the recording")
    return 1 if failures else 0


def test_equiv():
    assert main() == 0
# --------------------------------------------------------------------------
# synthetic ALOS-2 image files (no real products are available)
# --------------------------------------------------------------------------
import struct as _struct

_DESCRIPTOR_FIELDS = [
    # (name, width); all ASCII, integers right-aligned, strings left-aligned
    ("ascii_ebcdic_flag", 2), ("blanks1", 2), ("format_control_document_id", 12),
    ("format_control_document_revision_level", 2), ("file_design_descriptor_revision_letter", 2),
    ("software_release_and_revision_number", 12), ("file_number", 4), ("file_id", 16),
    ("record_sequence_and_location_type_flag", 4), ("location_sequence_number", 8),
    ("field_length_of_sequence_number", 4), ("record_code_and_location_type_flag", 4),
    ("record_code_location", 8), ("record_code_field_length", 4),
    ("record_length_and_location_type_flag", 4), ("record_length_location", 8),
    ("record_length_field_length", 4), ("reserved1", 1), ("reserved2", 1), ("reserved3", 1),
    ("reserved4", 1), ("blanks6", 64), ("number_of_sar_data_records", 6),
    ("sar_data_record_length", 6), ("reserved5", 24),
    ("bit_length_per_sample", 4), ("number_of_samples_per_data_group", 4),
    ("number_of_bytes_per_data_group", 4),
    ("justification_and_order_of_samples_within_data_group", 4),
    ("number_of_sar_channels", 4), ("number_of_lines_per_dataset", 8),
    ("number_of_left_border_pixels_per_line", 4), ("number_of_data_groups_per_line", 8),
    ("number_of_right_border_pixels_per_line", 4), ("number_of_top_border_lines", 4),
    ("number_of_bottom_border_lines", 4), ("interleaving_id", 4),
    ("number_of_physical_records_per_line", 2),
    ("number_of_physical_records_per_multichannel_line_in_this_file", 2),
    ("number_of_bytes_of_prefix_data_per_record", 4),
    ("number_of_bytes_of_sar_data_per_record", 8),
    ("number_of_bytes_of_suffix_data_per_record", 4), ("prefix_suffix_repeat_flag", 4),
    ("sample_data_line_number_locator", 8), ("sar_channel_number_locator", 8),
    ("time_of_sar_data_line_locator", 8), ("left_fill_count_locator", 8),
    ("right_fill_count_locator", 8), ("pad_pixels_present_indicator", 4), ("blanks_a", 28),
    ("sar_data_line_quality_code_locator", 8), ("calibration_information_field_locator", 8),
    ("gain_values_field_locator", 8), ("bias_values_field_locator", 8),
    ("sar_data_format_type_indicator", 28), ("sar_data_format_type_code", 4),
    ("number_of_left_fill_bits_within_pixel", 4), ("number_of_right_fill_bits_within_pixel", 4),
    ("maximum_data_range_of_pixel", 8), ("number_of_burst_data", 4),
    ("number_of_lines_per_burst", 4), ("number_of_overlap_lines_with_adjacent_bursts", 4),
    ("blanks_b", 260),
]
assert 12 + sum(width for _, width in _DESCRIPTOR_FIELDS) == 720


def make_preamble(sequence_number, record_type, record_length):
    return _struct.pack(">IBBBBI", sequence_number, 50, record_type, 18, 20, record_length)


def make_file_descriptor(**values):
    defaults = {
        "ascii_ebcdic_flag": "A", "format_control_document_id": "CEOS-SAR", 
        "format_control_document_revision_level": "A", "file_design_descriptor_revision_letter": "A",
        "software_release_and_revision_number": "002.011", "file_number": 3,
        "file_id": "BSAR IMOP", "record_sequence_and_location_type_flag": "FSEQ",
        "location_sequence_number": 1, "field_length_of_sequence_number": 4,
        "record_code_and_location_type_flag": "FTYP", "record_code_location": 5,
        "record_code_field_length": 4, "record_length_and_location_type_flag": "FLGT",
        "record_length_location": 9, "record_length_field_length": 4,
        "bit_length_per_sample": 16, "number_of_samples_per_data_group": 1,
        "number_of_bytes_per_data_group": 2, "number_of_sar_channels": 1,
        "interleaving_id": "BSQ", "number_of_physical_records_per_line": 1,
        "number_of_physical_records_per_multichannel_line_in_this_file": 1,
        "sar_data_format_type_indicator": "UNSIGNED INTEGER*2", "sar_data_format_type_code": "IU2",
        "number_of_left_fill_bits_within_pixel": 0, "number_of_right_fill_bits_within_pixel": 0,
    }
    merged = defaults | values
    unknown = set(merged) - {name for name, _ in _DESCRIPTOR_FIELDS}
    assert not unknown, unknown

    parts = [make_preamble(1, 192, 720)]
    for name, width in _DESCRIPTOR_FIELDS:
        value = merged.get(name, "")
        text = f"{value:>{width}d}" if isinstance(value, int) else f"{value:<{width}s}"
        assert len(text) == width, (name, text)
        parts.append(text.encode("ascii"))
    content = b"".join(parts)
    assert len(content) == 720
    return content


def make_data_record(sequence_number, record_type, prefix_size, pixels, *, year=2020, seed=0):
    """a signal (type 10, 544 bytes prefix) or processed (type 11, 192 bytes prefix) data record

    The prefix words are small deterministic numbers, then the date fields are made valid.
    """
    record_length = prefix_size + len(pixels)
    n_words = (prefix_size - 12) // 4
    words = [(sequence_number * 13 + index * 7 + seed) % 97 for index in range(n_words)]
    words[0] = sequence_number  # sar_image_data_line_number
    words[1] = 1  # sar_image_data_record_index
    words[6] = year
    words[7] = 1 + (sequence_number * 37 + seed) % 365  # day of year
    words[8] = (sequence_number * 1234567 + seed) % 86400000  # milliseconds of the day
    prefix = make_preamble(sequence_number, record_type, record_length) + _struct.pack(
        f">{n_words}I", *words
    )
    assert len(prefix) == prefix_size
    return prefix + pixels


def make_pixels(line, n_pixels, type_code):
    if type_code == "IU2":
        return _struct.pack(f">{n_pixels}H", *[(line * 100 + col) % 65536 for col in range(n_pixels)])
    elif type_code == "C*8":
        values = []
        for col in range(n_pixels):
            values.extend([line + col / 4, -line + col / 8])
        return _struct.pack(f">{2 * n_pixels}f", *values)
    raise AssertionError(type_code)


def make_image(n_lines, n_pixels, *, record_type=10, type_code="IU2", seed=0, **header_values):
    prefix_size = {10: 544, 11: 192}[record_type]
    records = [
        make_data_record(
            line, record_type, prefix_size, make_pixels(line, n_pixels, type_code), seed=seed
        )
        for line in range(1, n_lines + 1)
    ]
    record_length = len(records[0]) if records else prefix_size
    header = {
        "number_of_sar_data_records": n_lines,
        "sar_data_record_length": record_length,
        "number_of_lines_per_dataset": n_lines,
        "number_of_data_groups_per_line": n_pixels,
        "number_of_bytes_of_prefix_data_per_record": prefix_size,
        "number_of_bytes_of_sar_data_per_record": record_length - prefix_size,
        "sar_data_format_type_code": type_code,
    } | header_values
    return make_file_descriptor(**header) + b"".join(records)

def call(func, *args):
    """outcome of the call, whether the arguments survived unchanged, identity of passthroughs"""
    before = describe(list(args))
    result = outcome(func, *args)
    after = describe(list(args))

    return {"outcome": result, "arguments_unchanged": before == after}


nan = float("nan")


def header_cases():
    yield "suite/preamble", {"preamble": {}}
    yield "suite/known", {
        "interleaving_id": "BSQ",
        "number_of_burst_data": 5,
        "number_of_lines_per_burst": 1,
        "number_of_overlap_lines_with_adjacent_bursts": 3,
    }
    yield "suite/range", {"maximum_data_range_of_pixel": 27}
    yield "suite/nan", {"maximum_data_range_of_pixel": nan}
    yield "empty", {}
    yield "all-missing", {
        "interleaving_id": "",
        "maximum_data_range_of_pixel": -1,
        "number_of_burst_data": -1,
        "number_of_lines_per_burst": -1,
        "number_of_overlap_lines_with_adjacent_bursts": -1,
    }
    yield "reverse-order", {
        "number_of_overlap_lines_with_adjacent_bursts": 7,
        "number_of_lines_per_burst": 6,
        "number_of_burst_data": 5,
        "maximum_data_range_of_pixel": 4,
        "interleaving_id": "BIL",
        "unknown": 1,
    }
    yield "nested", {
        "preamble": {"record_length": 720, "interleaving_id": "from preamble"},
        "a": {"interleaving_id": "BSQ", "other": 1},
        "b": {"maximum_data_range_of_pixel": 255, "number_of_burst_data": -1},
        "c": {"number_of_overlap_lines_with_adjacent_bursts": 0, "blanks": ""},
        "number_of_lines_per_burst": 12,
    }
    yield "nested/later-wins", {
        "a": {"number_of_burst_data": 1, "interleaving_id": "first"},
        "b": {"number_of_burst_data": -1},
        "interleaving_id": "second",
    }
    yield "nested/preamble-not-at-top", {"a": {"preamble": {"interleaving_id": "x"}}}
    yield "nested/two-levels", {"a": {"b": {"interleaving_id": "too deep"}}}
    yield "nested/known-name-holds-section", {"interleaving_id": {"number_of_burst_data": 3}}
    yield "nested/section-named-like-known", {"a": {"interleaving_id": {"x": 1}}}
    for name, value in {
        "zero": 0, "one": 1, "minus-one": -1, "minus-one-float": -1.0, "minus-two": -2,
        "float": 2.5, "nan": nan, "inf": float("inf"), "minus-inf": float("-inf"),
        "true": True, "false": False, "none": None, "str": "abc", "empty-str": "",
        "bytes": b"12", "list": [1, 2], "empty-list": [], "tuple": (1, 2), "empty-tuple": (),
        "dict": {"x": 1}, "complex": 1 + 2j, "decimal": decimal.Decimal("3.5"),
        "decimal-nan": decimal.Decimal("nan"), "fraction": fractions.Fraction(-1, 1),
        "np-int": np.int64(7), "np-minus-one": np.int32(-1), "np-nan": np.float32("nan"),
        "np-float": np.float64(1.5), "np-array": np.array([1, -1]), "np-array0": np.array(-1),
        "np-array1": np.array([3]), "big": 10**40, "set": {1},
        "datetime": dt.datetime(2020, 1, 1),
    }.items():
        for key in (
            "interleaving_id",
            "maximum_data_range_of_pixel",
            "number_of_burst_data",
            "number_of_lines_per_burst",
            "number_of_overlap_lines_with_adjacent_bursts",
            "something_else",
        ):
            yield f"value/{key}/{name}", {"unknown": 0, key: value, "interleaving_id2": "x"}
    yield "keys/not-strings", {1: 2, None: 3, (1, 2): {"number_of_burst_data": 2}, "preamble": 1}
    yield "keys/translated-name-present", {"valid_range": 5, "maximum_data_range_of_pixel": 9}
    yield "not-a-mapping/none", None
    yield "not-a-mapping/list", []
    yield "not-a-mapping/pairs", [("interleaving_id", "BSQ")]
    yield "not-a-mapping/int", 5
    yield "not-a-mapping/str", "interleaving_id"


def override_cases():
    base = {"a": ("x", [1, 2], {}), "b": ("y", [1.0, 2.1], {"units": "m"}), "c": ("x", ["1", "2"], {})}
    dates = {
        "t": ("rows", [dt.datetime(2020, 10, 1, 12, 37, 42, 451000), dt.datetime(2021, 1, 2)], {}),
        "u": ("rows", [], {"k": 1}),
    }
    yield "suite/a", {"a": "int8"}, base
    yield "suite/b", {"b": "float16"}, base
    yield "none", {}, base
    yield "all", {"a": "float32", "b": "int16", "c": "int64"}, base
    yield "all/reversed-overrides", {"c": "int64", "b": "int16", "a": "float32"}, base
    yield "missing-name", {"z": "int8", "a": ">u2"}, base
    yield "empty-mapping", {"a": "int8"}, {}
    yield "dates", {"t": "datetime64[ns]", "u": "datetime64[ns]"}, dates
    yield "dates/seconds", {"t": "datetime64[s]"}, dates
    yield "dtype-objects", {"a": np.dtype("complex64"), "b": np.float32, "c": float}, base
    yield "dtype/none", {"a": None}, base
    yield "dtype/invalid", {"a": "no-such-dtype"}, base
    yield "dtype/invalid-second", {"b": "no-such-dtype", "a": "int8"}, base
    yield "unconvertible", {"c": "int8"}, {"a": ("x", [1], {}), "c": ("x", ["a", "b"], {})}
    yield "overflow", {"a": "int8"}, {"a": ("x", [1000, -1000], {})}
    yield "two-tuple", {"a": "int8"}, {"a": ([1, 2], {})}
    yield "two-tuple/not-overridden", {"b": "int8"}, {"a": ([1, 2], {}), "b": ((), 1, {})}
    yield "four-tuple", {"a": "int8"}, {"a": ("x", [1, 2], {}, None)}
    yield "not-a-tuple", {"a": "int8"}, {"a": 5}
    yield "string-value", {"a": "int8"}, {"a": "xyz"}
    yield "list-value", {"a": "int8"}, {"a": ["x", [1, 2], {"n": 1}]}
    yield "array-value", {"a": "float64"}, {"a": ("x", np.array([1, 2], dtype="int8"), {})}
    yield "nested-data", {"a": "int16"}, {"a": (("x", "y"), [[1, 2], [3, 4]], {})}
    yield "ragged-data", {"a": "int16"}, {"a": (("x", "y"), [[1, 2], [3]], {})}
    yield "scalar-data", {"a": "int16"}, {"a": ((), 3, {})}
    yield "overrides/list", ["a"], base
    yield "overrides/set", {"a"}, base
    yield "overrides/str", "a", base
    yield "overrides/none", None, base
    yield "mapping/none", {"a": "int8"}, None
    yield "mapping/list", {"a": "int8"}, [("a", ("x", [1], {}))]
    yield "keys/not-strings", {1: "int8", None: "float32"}, {1: ("x", [1], {}), None: ("x", [2], {}), 2: 0}


def deduplicate_cases():
    base = {"a": 1, "b": ("x", [1, 1], {}), "c": ("y", [2, 2], {})}
    yield "suite/b", ["b"], base
    yield "suite/c", ["c"], base
    yield "suite/bc", ["b", "c"], base
    yield "none-known", [], base
    yield "unknown-name", ["z"], base
    yield "order", {"c", "a2"}, {"c": ("r", [3, 4], {}), "v": ("r", [5], {}), "a2": ("r", "xy", {}), "w": 0}
    yield "known/set", {"b"}, base
    yield "known/tuple", ("c", "b"), base
    yield "known/dict", {"b": 0}, base
    yield "known/str", "abc", base
    yield "known/str-substring", "xbcx", {"bc": ("r", [1], {}), "b": ("r", [2], {}), "d": ("r", [3], {})}
    yield "known/none", None, base
    yield "known/int", 3, base
    yield "differing-values", ["b"], {"b": ("x", [1, 2, 3], {"units": "m"})}
    yield "empty-data", ["b"], {"a": 0, "b": ("x", [], {})}
    yield "empty-data/not-known", ["a"], {"a": ("x", [5], {}), "b": ("x", [], {})}
    yield "short-tuple", ["b"], {"b": ("x",)}
    yield "empty-tuple", ["b"], {"b": ()}
    yield "two-tuple", ["b"], {"b": ([7, 8], {})}
    yield "two-tuple/attrs-second", ["b"], {"b": ("x", {"k": 1, "l": 2})}
    yield "scalar-known", ["a"], base
    yield "string-known", ["a"], {"a": "xyz"}
    yield "string-known/nested", ["a"], {"a": ("x", "yz")}
    yield "list-value", ["a"], {"a": [1, [2, 3], 4]}
    yield "dict-value", ["a"], {"a": {"p": 1, "q": [9, 8]}}
    yield "array-data", ["a"], {"a": ("x", np.array([4, 5], dtype="uint16"), {})}
    yield "array-2d", ["a"], {"a": ("x", np.array([[4, 5], [6, 7]]), {})}
    yield "array-0d", ["a"], {"a": ("x", np.array(4), {})}
    yield "iterator-data", ["a"], {"a": ("x", iter([10, 11]), {})}
    yield "datetime-data", ["a"], {"a": ("x", [dt.datetime(2020, 1, 1), 5], {})}
    yield "scalar-data", ["a"], {"a": ("x", 5, {})}
    yield "none-data", ["a"], {"a": ("x", None, {})}
    yield "empty-mapping", ["a"], {}
    yield "mapping/none", ["a"], None
    yield "mapping/list", ["a"], [("a", 1)]
    yield "all-known", ["a", "b"], {"a": ("x", [1], {}), "b": ("y", [2], {})}
    yield "keys/not-strings", [1, None], {1: ("x", [1], {}), None: ("x", [2], {}), (1, 2): 0}


def compute():
    results = {}

    for name, header in header_cases():
        results[f"extract_attrs/{name}"] = call(metadata.extract_attrs, header)

    # results do not alias module state: modify a result, then ask again
    header = {"maximum_data_range_of_pixel": 27, "number_of_burst_data": 4, "interleaving_id": "BSQ"}
    first_result = metadata.extract_attrs(header)
    first_result["valid_range"].append("modified")
    first_result["new"] = 1
    results["extract_attrs/fresh-results"] = call(metadata.extract_attrs, header)
    results["extract_attrs/fresh-results/modified"] = describe(first_result)

    # real headers
    for name, values in {
        "level1.1": {},
        "level1.5": {"maximum_data_range_of_pixel": 65535},
        "specan": {
            "number_of_burst_data": 12,
            "number_of_lines_per_burst": 345,
            "number_of_overlap_lines_with_adjacent_bursts": 6,
        },
        "zeros": {
            "maximum_data_range_of_pixel": 0,
            "number_of_burst_data": 0,
            "number_of_lines_per_burst": 0,
            "number_of_overlap_lines_with_adjacent_bursts": 0,
            "interleaving_id": "",
        },
    }.items():
        header = sar_io.to_dict(sar_io.read_file_descriptor(_io.BytesIO(make_file_descriptor(**values))))
        results[f"extract_attrs/real/{name}"] = call(metadata.extract_attrs, header)

    for name, overrides, mapping in override_cases():
        mapping_ = copy.deepcopy(mapping)
        result = call(metadata.apply_overrides, overrides, mapping_)
        try:
            applied = metadata.apply_overrides(overrides, mapping_)
        except BaseException:  # noqa: B902
            pass
        else:
            # values that are not overridden are passed through as they are
            result["same_objects"] = [
                (describe(k), applied[k] is mapping_[k], type(applied[k]).__name__) for k in applied
            ]
            result["new_mapping"] = applied is not mapping_
        results[f"apply_overrides/{name}"] = result

    for name, known, mapping in deduplicate_cases():
        if name == "iterator-data":
            results[f"deduplicate_attrs/{name}"] = {"outcome": outcome(metadata.deduplicate_attrs, known, mapping)}
            continue
        mapping_ = copy.deepcopy(mapping)
        result = call(metadata.deduplicate_attrs, known, mapping_)
        try:
            applied = metadata.deduplicate_attrs(known, mapping_)
        except BaseException:  # noqa: B902
            pass
        else:
            result["same_objects"] = [
                (describe(k), applied[k] is mapping_[k], type(applied[k]).__name__) for k in applied
            ]
        results[f"deduplicate_attrs/{name}"] = result

    # through the public entry points that use the helpers
    for record_type, type_code, values in (
        (10, "C*8", {}),
        (11, "IU2", {"maximum_data_range_of_pixel": 65535}),
        (10, "IU2", {"number_of_burst_data": 3, "number_of_lines_per_burst": 1,
                     "number_of_overlap_lines_with_adjacent_bursts": 0}),
    ):
        content = make_image(3, 2, record_type=record_type, type_code=type_code, seed=record_type, **values)
        header, lines = sar_io.read_metadata(_io.BytesIO(content), 2)
        results[f"transform_metadata/{record_type}/{type_code}"] = call(
            metadata.transform_metadata, header, lines
        )
        results[f"transform_line_metadata/{record_type}/{type_code}"] = call(
            metadata.transform_line_metadata, lines
        )

    results["module/names"] = sorted(
        name
        for name in (
            "extract_format_type", "extract_shape", "extract_attrs", "apply_overrides",
            "deduplicate_attrs", "transform_line_metadata", "dtypes", "transform_metadata",
        )
        if hasattr(metadata, name)
    )
    import inspect

    results["module/signatures"] = [
        str(inspect.signature(getattr(metadata, name)))
        for name in ("extract_attrs", "apply_overrides", "deduplicate_attrs")
    ]

    return results


# === BEGIN RECORDED (from the unchanged code; EQUIV_RECORD=1 regenerates) ===
EXPECTED = {'extract_attrs/suite/preamble': {'outcome': ('returned', ('dict', [])), 'arguments_unchanged': True},
 'extract_attrs/suite/known': {'outcome': ('returned',
                                           ('dict',
                                            [('interleaving_id', 'BSQ'), ('number_of_burst_data', 5), ('number_of_lines_per_burst', 1),
                                             ('number_of_overlap_lines_with_adjacent_bursts', 3)])),
                               'arguments_unchanged': True},
 'extract_attrs/suite/range': {'outcome': ('returned', ('dict', [('valid_range', [0, 27])])), 'arguments_unchanged': True},
 'extract_attrs/suite/nan': {'outcome': ('returned', ('dict', [])), 'arguments_unchanged': True},
 'extract_attrs/empty': {'outcome': ('returned', ('dict', [])), 'arguments_unchanged': True},
 'extract_attrs/all-missing': {'outcome': ('returned', ('dict', [('interleaving_id', '')])), 'arguments_unchanged': True},
 'extract_attrs/reverse-order': {'outcome': ('returned',
                                             ('dict',
                                              [('number_of_overlap_lines_with_adjacent_bursts', 7), ('number_of_lines_per_burst', 6),
                                               ('number_of_burst_data', 5), ('valid_range', [0, 4]), ('interleaving_id', 'BIL')])),
                                 'arguments_unchanged': True},
 'extract_attrs/nested': {'outcome': ('returned',
                                      ('dict',
                                       [('interleaving_id', 'BSQ'), ('valid_range', [0, 255]), ('number_of_overlap_lines_with_adjacent_bursts', 0),
                                        ('number_of_lines_per_burst', 12)])),
                          'arguments_unchanged': True},
 'extract_attrs/nested/later-wins': {'outcome': ('returned', ('dict', [('interleaving_id', 'second')])), 'arguments_unchanged': True},
 'extract_attrs/nested/preamble-not-at-top': {'outcome': ('returned', ('dict', [])), 'arguments_unchanged': True},
 'extract_attrs/nested/two-levels': {'outcome': ('returned', ('dict', [])), 'arguments_unchanged': True},
 'extract_attrs/nested/known-name-holds-section': {'outcome': ('returned', ('dict', [('number_of_burst_data', 3)])), 'arguments_unchanged': True},
 'extract_attrs/nested/section-named-like-known': {'outcome': ('returned', ('dict', [('interleaving_id', ('dict', [('x', 1)]))])), 'arguments_unchanged': True},
 'extract_attrs/value/interleaving_id/zero': {'outcome': ('returned', ('dict', [('interleaving_id', 0)])), 'arguments_unchanged': True},
 'extract_attrs/value/maximum_data_range_of_pixel/zero': {'outcome': ('returned', ('dict', [('valid_range', [0, 0])])), 'arguments_unchanged': True},
 'extract_attrs/value/number_of_burst_data/zero': {'outcome': ('returned', ('dict', [('number_of_burst_data', 0)])), 'arguments_unchanged': True},
 'extract_attrs/value/number_of_lines_per_burst/zero': {'outcome': ('returned', ('dict', [('number_of_lines_per_burst', 0)])), 'arguments_unchanged': True},
 'extract_attrs/value/number_of_overlap_lines_with_adjacent_bursts/zero': {'outcome': ('returned',
                                                                                       ('dict', [('number_of_overlap_lines_with_adjacent_bursts', 0)])),
                                                                           'arguments_unchanged': True},
 'extract_attrs/value/something_else/zero': {'outcome': ('returned', ('dict', [])), 'arguments_unchanged': True},
 'extract_attrs/value/interleaving_id/one': {'outcome': ('returned', ('dict', [('interleaving_id', 1)])), 'arguments_unchanged': True},
 'extract_attrs/value/maximum_data_range_of_pixel/one': {'outcome': ('returned', ('dict', [('valid_range', [0, 1])])), 'arguments_unchanged': True},
 'extract_attrs/value/number_of_burst_data/one': {'outcome': ('returned', ('dict', [('number_of_burst_data', 1)])), 'arguments_unchanged': True},
 'extract_attrs/value/number_of_lines_per_burst/one': {'outcome': ('returned', ('dict', [('number_of_lines_per_burst', 1)])), 'arguments_unchanged': True},
 'extract_attrs/value/number_of_overlap_lines_with_adjacent_bursts/one': {'outcome': ('returned',
                                                                                      ('dict', [('number_of_overlap_lines_with_adjacent_bursts', 1)])),
                                                                          'arguments_unchanged': True},
 'extract_attrs/value/something_else/one': {'outcome': ('returned', ('dict', [])), 'arguments_unchanged': True},
 'extract_attrs/value/interleaving_id/minus-one': {'outcome': ('returned', ('dict', [('interleaving_id', -1)])), 'arguments_unchanged': True},
 'extract_attrs/value/maximum_data_range_of_pixel/minus-one': {'outcome': ('returned', ('dict', [])), 'arguments_unchanged': True},
 'extract_attrs/value/number_of_burst_data/minus-one': {'outcome': ('returned', ('dict', [])), 'arguments_unchanged': True},
 'extract_attrs/value/number_of_lines_per_burst/minus-one': {'outcome': ('returned', ('dict', [])), 'arguments_unchanged': True},
 'extract_attrs/value/number_of_overlap_lines_with_adjacent_bursts/minus-one': {'outcome': ('returned', ('dict', [])), 'arguments_unchanged': True},
 'extract_attrs/value/something_else/minus-one': {'outcome': ('returned', ('dict', [])), 'arguments_unchanged': True},
 'extract_attrs/value/interleaving_id/minus-one-float': {'outcome': ('returned', ('dict', [('interleaving_id', -1.0)])), 'arguments_unchanged': True},
 'extract_attrs/value/maximum_data_range_of_pixel/minus-one-float': {'outcome': ('returned', ('dict', [])), 'arguments_unchanged': True},
 'extract_attrs/value/number_of_burst_data/minus-one-float': {'outcome': ('returned', ('dict', [])), 'arguments_unchanged': True},
 'extract_attrs/value/number_of_lines_per_burst/minus-one-float': {'outcome': ('returned', ('dict', [])), 'arguments_unchanged': True},
 'extract_attrs/value/number_of_overlap_lines_with_adjacent_bursts/minus-one-float': {'outcome': ('returned', ('dict', [])), 'arguments_unchanged': True},
 'extract_attrs/value/something_else/minus-one-float': {'outcome': ('returned', ('dict', [])), 'arguments_unchanged': True},
 'extract_attrs/value/interleaving_id/minus-two': {'outcome': ('returned', ('dict', [('interleaving_id', -2)])), 'arguments_unchanged': True},
 'extract_attrs/value/maximum_data_range_of_pixel/minus-two': {'outcome': ('returned', ('dict', [('valid_range', [0, -2])])), 'arguments_unchanged': True},
 'extract_attrs/value/number_of_burst_data/minus-two': {'outcome': ('returned', ('dict', [('number_of_burst_data', -2)])), 'arguments_unchanged': True},
 'extract_attrs/value/number_of_lines_per_burst/minus-two': {'outcome': ('returned', ('dict', [('number_of_lines_per_burst', -2)])),
                                                             'arguments_unchanged': True},
 'extract_attrs/value/number_of_overlap_lines_with_adjacent_bursts/minus-two': {'outcome': ('returned',
                                                                                            ('dict', [('number_of_overlap_lines_with_adjacent_bursts', -2)])),
                                                                                'arguments_unchanged': True},
 'extract_attrs/value/something_else/minus-two': {'outcome': ('returned', ('dict', [])), 'arguments_unchanged': True},
 'extract_attrs/value/interleaving_id/float': {'outcome': ('returned', ('dict', [('interleaving_id', 2.5)])), 'arguments_unchanged': True},
 'extract_attrs/value/maximum_data_range_of_pixel/float': {'outcome': ('returned', ('dict', [('valid_range', [0, 2.5])])), 'arguments_unchanged': True},
 'extract_attrs/value/number_of_burst_data/float': {'outcome': ('returned', ('dict', [('number_of_burst_data', 2.5)])), 'arguments_unchanged': True},
 'extract_attrs/value/number_of_lines_per_burst/float': {'outcome': ('returned', ('dict', [('number_of_lines_per_burst', 2.5)])), 'arguments_unchanged': True},
 'extract_attrs/value/number_of_overlap_lines_with_adjacent_bursts/float': {'outcome': ('returned',
                                                                                        ('dict', [('number_of_overlap_lines_with_adjacent_bursts', 2.5)])),
                                                                            'arguments_unchanged': True},
 'extract_attrs/value/something_else/float': {'outcome': ('returned', ('dict', [])), 'arguments_unchanged': True},
 'extract_attrs/value/interleaving_id/nan': {'outcome': ('returned', ('dict', [('interleaving_id', ('float', 'nan'))])), 'arguments_unchanged': True},
 'extract_attrs/value/maximum_data_range_of_pixel/nan': {'outcome': ('returned', ('dict', [])), 'arguments_unchanged': True},
 'extract_attrs/value/number_of_burst_data/nan': {'outcome': ('returned', ('dict', [('number_of_burst_data', ('float', 'nan'))])), 'arguments_unchanged': True},
 'extract_attrs/value/number_of_lines_per_burst/nan': {'outcome': ('returned', ('dict', [('number_of_lines_per_burst', ('float', 'nan'))])),
                                                       'arguments_unchanged': True},
 'extract_attrs/value/number_of_overlap_lines_with_adjacent_bursts/nan': {'outcome': ('returned',
                                                                                      ('dict',
                                                                                       [('number_of_overlap_lines_with_adjacent_bursts', ('float', 'nan'))])),
                                                                          'arguments_unchanged': True},
 'extract_attrs/value/something_else/nan': {'outcome': ('returned', ('dict', [])), 'arguments_unchanged': True},
 'extract_attrs/value/interleaving_id/inf': {'outcome': ('returned', ('dict', [('interleaving_id', ('float', 'inf'))])), 'arguments_unchanged': True},
 'extract_attrs/value/maximum_data_range_of_pixel/inf': {'outcome': ('returned', ('dict', [('valid_range', [0, ('float', 'inf')])])),
                                                         'arguments_unchanged': True},
 'extract_attrs/value/number_of_burst_data/inf': {'outcome': ('returned', ('dict', [('number_of_burst_data', ('float', 'inf'))])), 'arguments_unchanged': True},
 'extract_attrs/value/number_of_lines_per_burst/inf': {'outcome': ('returned', ('dict', [('number_of_lines_per_burst', ('float', 'inf'))])),
                                                       'arguments_unchanged': True},
 'extract_attrs/value/number_of_overlap_lines_with_adjacent_bursts/inf': {'outcome': ('returned',
                                                                                      ('dict',
                                                                                       [('number_of_overlap_lines_with_adjacent_bursts', ('float', 'inf'))])),
                                                                          'arguments_unchanged': True},
 'extract_attrs/value/something_else/inf': {'outcome': ('returned', ('dict', [])), 'arguments_unchanged': True},
 'extract_attrs/value/interleaving_id/minus-inf': {'outcome': ('returned', ('dict', [('interleaving_id', ('float', '-inf'))])), 'arguments_unchanged': True},
 'extract_attrs/value/maximum_data_range_of_pixel/minus-inf': {'outcome': ('returned', ('dict', [('valid_range', [0, ('float', '-inf')])])),
                                                               'arguments_unchanged': True},
 'extract_attrs/value/number_of_burst_data/minus-inf': {'outcome': ('returned', ('dict', [('number_of_burst_data', ('float', '-inf'))])),
                                                        'arguments_unchanged': True},
 'extract_attrs/value/number_of_lines_per_burst/minus-inf': {'outcome': ('returned', ('dict', [('number_of_lines_per_burst', ('float', '-inf'))])),
                                                             'arguments_unchanged': True},
 'extract_attrs/value/number_of_overlap_lines_with_adjacent_bursts/minus-inf': {'outcome': ('returned',
                                                                                            ('dict',
                                                                                             [('number_of_overlap_lines_with_adjacent_bursts',
                                                                                               ('float', '-inf'))])),
                                                                                'arguments_unchanged': True},
 'extract_attrs/value/something_else/minus-inf': {'outcome': ('returned', ('dict', [])), 'arguments_unchanged': True},
 'extract_attrs/value/interleaving_id/true': {'outcome': ('returned', ('dict', [('interleaving_id', True)])), 'arguments_unchanged': True},
 'extract_attrs/value/maximum_data_range_of_pixel/true': {'outcome': ('returned', ('dict', [('valid_range', [0, True])])), 'arguments_unchanged': True},
 'extract_attrs/value/number_of_burst_data/true': {'outcome': ('returned', ('dict', [('number_of_burst_data', True)])), 'arguments_unchanged': True},
 'extract_attrs/value/number_of_lines_per_burst/true': {'outcome': ('returned', ('dict', [('number_of_lines_per_burst', True)])), 'arguments_unchanged': True},
 'extract_attrs/value/number_of_overlap_lines_with_adjacent_bursts/true': {'outcome': ('returned',
                                                                                       ('dict', [('number_of_overlap_lines_with_adjacent_bursts', True)])),
                                                                           'arguments_unchanged': True},
 'extract_attrs/value/something_else/true': {'outcome': ('returned', ('dict', [])), 'arguments_unchanged': True},
 'extract_attrs/value/interleaving_id/false': {'outcome': ('returned', ('dict', [('interleaving_id', False)])), 'arguments_unchanged': True},
 'extract_attrs/value/maximum_data_range_of_pixel/false': {'outcome': ('returned', ('dict', [('valid_range', [0, False])])), 'arguments_unchanged': True},
 'extract_attrs/value/number_of_burst_data/false': {'outcome': ('returned', ('dict', [('number_of_burst_data', False)])), 'arguments_unchanged': True},
 'extract_attrs/value/number_of_lines_per_burst/false': {'outcome': ('returned', ('dict', [('number_of_lines_per_burst', False)])),
                                                         'arguments_unchanged': True},
 'extract_attrs/value/number_of_overlap_lines_with_adjacent_bursts/false': {'outcome': ('returned',
                                                                                        ('dict', [('number_of_overlap_lines_with_adjacent_bursts', False)])),
                                                                            'arguments_unchanged': True},
 'extract_attrs/value/something_else/false': {'outcome': ('returned', ('dict', [])), 'arguments_unchanged': True},
 'extract_attrs/value/interleaving_id/none': {'outcome': ('returned', ('dict', [('interleaving_id', None)])), 'arguments_unchanged': True},
 'extract_attrs/value/maximum_data_range_of_pixel/none': {'outcome': ('raised', 'builtins', 'TypeError', 'must be real number, not NoneType'),
                                                          'arguments_unchanged': True},
 'extract_attrs/value/number_of_burst_data/none': {'outcome': ('returned', ('dict', [('number_of_burst_data', None)])), 'arguments_unchanged': True},
 'extract_attrs/value/number_of_lines_per_burst/none': {'outcome': ('returned', ('dict', [('number_of_lines_per_burst', None)])), 'arguments_unchanged': True},
 'extract_attrs/value/number_of_overlap_lines_with_adjacent_bursts/none': {'outcome': ('returned',
                                                                                       ('dict', [('number_of_overlap_lines_with_adjacent_bursts', None)])),
                                                                           'arguments_unchanged': True},
 'extract_attrs/value/something_else/none': {'outcome': ('returned', ('dict', [])), 'arguments_unchanged': True},
 'extract_attrs/value/interleaving_id/str': {'outcome': ('returned', ('dict', [('interleaving_id', 'abc')])), 'arguments_unchanged': True},
 'extract_attrs/value/maximum_data_range_of_pixel/str': {'outcome': ('raised', 'builtins', 'TypeError', 'must be real number, not str'),
                                                         'arguments_unchanged': True},
 'extract_attrs/value/number_of_burst_data/str': {'outcome': ('returned', ('dict', [('number_of_burst_data', 'abc')])), 'arguments_unchanged': True},
 'extract_attrs/value/number_of_lines_per_burst/str': {'outcome': ('returned', ('dict', [('number_of_lines_per_burst', 'abc')])), 'arguments_unchanged': True},
 'extract_attrs/value/number_of_overlap_lines_with_adjacent_bursts/str': {'outcome': ('returned',
                                                                                      ('dict', [('number_of_overlap_lines_with_adjacent_bursts', 'abc')])),
                                                                          'arguments_unchanged': True},
 'extract_attrs/value/something_else/str': {'outcome': ('returned', ('dict', [])), 'arguments_unchanged': True},
 'extract_attrs/value/interleaving_id/empty-str': {'outcome': ('returned', ('dict', [('interleaving_id', '')])), 'arguments_unchanged': True},
 'extract_attrs/value/maximum_data_range_of_pixel/empty-str': {'outcome': ('raised', 'builtins', 'TypeError', 'must be real number, not str'),
                                                               'arguments_unchanged': True},
 'extract_attrs/value/number_of_burst_data/empty-str': {'outcome': ('returned', ('dict', [('number_of_burst_data', '')])), 'arguments_unchanged': True},
 'extract_attrs/value/number_of_lines_per_burst/empty-str': {'outcome': ('returned', ('dict', [('number_of_lines_per_burst', '')])),
                                                             'arguments_unchanged': True},
 'extract_attrs/value/number_of_overlap_lines_with_adjacent_bursts/empty-str': {'outcome': ('returned',
                                                                                            ('dict', [('number_of_overlap_lines_with_adjacent_bursts', '')])),
                                                                                'arguments_unchanged': True},
 'extract_attrs/value/something_else/empty-str': {'outcome': ('returned', ('dict', [])), 'arguments_unchanged': True},
 'extract_attrs/value/interleaving_id/bytes': {'outcome': ('returned', ('dict', [('interleaving_id', b'12')])), 'arguments_unchanged': True},
 'extract_attrs/value/maximum_data_range_of_pixel/bytes': {'outcome': ('raised', 'builtins', 'TypeError', 'must be real number, not bytes'),
                                                           'arguments_unchanged': True},
 'extract_attrs/value/number_of_burst_data/bytes': {'outcome': ('returned', ('dict', [('number_of_burst_data', b'12')])), 'arguments_unchanged': True},
 'extract_attrs/value/number_of_lines_per_burst/bytes': {'outcome': ('returned', ('dict', [('number_of_lines_per_burst', b'12')])),
                                                         'arguments_unchanged': True},
 'extract_attrs/value/number_of_overlap_lines_with_adjacent_bursts/bytes': {'outcome': ('returned',
                                                                                        ('dict', [('number_of_overlap_lines_with_adjacent_bursts', b'12')])),
                                                                            'arguments_unchanged': True},
 'extract_attrs/value/something_else/bytes': {'outcome': ('returned', ('dict', [])), 'arguments_unchanged': True},
 'extract_attrs/value/interleaving_id/list': {'outcome': ('returned', ('dict', [('interleaving_id', [1, 2])])), 'arguments_unchanged': True},
 'extract_attrs/value/maximum_data_range_of_pixel/list': {'outcome': ('raised', 'builtins', 'TypeError', 'must be real number, not list'),
                                                          'arguments_unchanged': True},
 'extract_attrs/value/number_of_burst_data/list': {'outcome': ('returned', ('dict', [('number_of_burst_data', [1, 2])])), 'arguments_unchanged': True},
 'extract_attrs/value/number_of_lines_per_burst/list': {'outcome': ('returned', ('dict', [('number_of_lines_per_burst', [1, 2])])),
                                                        'arguments_unchanged': True},
 'extract_attrs/value/number_of_overlap_lines_with_adjacent_bursts/list': {'outcome': ('returned',
                                                                                       ('dict', [('number_of_overlap_lines_with_adjacent_bursts', [1, 2])])),
                                                                           'arguments_unchanged': True},
 'extract_attrs/value/something_else/list': {'outcome': ('returned', ('dict', [])), 'arguments_unchanged': True},
 'extract_attrs/value/interleaving_id/empty-list': {'outcome': ('returned', ('dict', [])), 'arguments_unchanged': True},
 'extract_attrs/value/maximum_data_range_of_pixel/empty-list': {'outcome': ('raised', 'builtins', 'TypeError', 'must be real number, not list'),
                                                                'arguments_unchanged': True},
 'extract_attrs/value/number_of_burst_data/empty-list': {'outcome': ('returned', ('dict', [])), 'arguments_unchanged': True},
 'extract_attrs/value/number_of_lines_per_burst/empty-list': {'outcome': ('returned', ('dict', [])), 'arguments_unchanged': True},
 'extract_attrs/value/number_of_overlap_lines_with_adjacent_bursts/empty-list': {'outcome': ('returned', ('dict', [])), 'arguments_unchanged': True},
 'extract_attrs/value/something_else/empty-list': {'outcome': ('returned', ('dict', [])), 'arguments_unchanged': True},
 'extract_attrs/value/interleaving_id/tuple': {'outcome': ('returned', ('dict', [('interleaving_id', (1, 2))])), 'arguments_unchanged': True},
 'extract_attrs/value/maximum_data_range_of_pixel/tuple': {'outcome': ('raised', 'builtins', 'TypeError', 'must be real number, not tuple'),
                                                           'arguments_unchanged': True},
 'extract_attrs/value/number_of_burst_data/tuple': {'outcome': ('returned', ('dict', [('number_of_burst_data', (1, 2))])), 'arguments_unchanged': True},
 'extract_attrs/value/number_of_lines_per_burst/tuple': {'outcome': ('returned', ('dict', [('number_of_lines_per_burst', (1, 2))])),
                                                         'arguments_unchanged': True},
 'extract_attrs/value/number_of_overlap_lines_with_adjacent_bursts/tuple': {'outcome': ('returned',
                                                                                        ('dict', [('number_of_overlap_lines_with_adjacent_bursts', (1, 2))])),
                                                                            'arguments_unchanged': True},
 'extract_attrs/value/something_else/tuple': {'outcome': ('returned', ('dict', [])), 'arguments_unchanged': True},
 'extract_attrs/value/interleaving_id/empty-tuple': {'outcome': ('returned', ('dict', [('interleaving_id', ())])), 'arguments_unchanged': True},
 'extract_attrs/value/maximum_data_range_of_pixel/empty-tuple': {'outcome': ('raised', 'builtins', 'TypeError', 'must be real number, not tuple'),
                                                                 'arguments_unchanged': True},
 'extract_attrs/value/number_of_burst_data/empty-tuple': {'outcome': ('returned', ('dict', [('number_of_burst_data', ())])), 'arguments_unchanged': True},
 'extract_attrs/value/number_of_lines_per_burst/empty-tuple': {'outcome': ('returned', ('dict', [('number_of_lines_per_burst', ())])),
                                                               'arguments_unchanged': True},
 'extract_attrs/value/number_of_overlap_lines_with_adjacent_bursts/empty-tuple': {'outcome': ('returned',
                                                                                              ('dict', [('number_of_overlap_lines_with_adjacent_bursts', ())])),
                                                                                  'arguments_unchanged': True},
 'extract_attrs/value/something_else/empty-tuple': {'outcome': ('returned', ('dict', [])), 'arguments_unchanged': True},
 'extract_attrs/value/interleaving_id/dict': {'outcome': ('returned', ('dict', [])), 'arguments_unchanged': True},
 'extract_attrs/value/maximum_data_range_of_pixel/dict': {'outcome': ('returned', ('dict', [])), 'arguments_unchanged': True},
 'extract_attrs/value/number_of_burst_data/dict': {'outcome': ('returned', ('dict', [])), 'arguments_unchanged': True},
 'extract_attrs/value/number_of_lines_per_burst/dict': {'outcome': ('returned', ('dict', [])), 'arguments_unchanged': True},
 'extract_attrs/value/number_of_overlap_lines_with_adjacent_bursts/dict': {'outcome': ('returned', ('dict', [])), 'arguments_unchanged': True},
 'extract_attrs/value/something_else/dict': {'outcome': ('returned', ('dict', [])), 'arguments_unchanged': True},
 'extract_attrs/value/interleaving_id/complex': {'outcome': ('returned', ('dict', [('interleaving_id', ('complex', '(1+2j)'))])), 'arguments_unchanged': True},
 'extract_attrs/value/maximum_data_range_of_pixel/complex': {'outcome': ('raised', 'builtins', 'TypeError', 'must be real number, not complex'),
                                                             'arguments_unchanged': True},
 'extract_attrs/value/number_of_burst_data/complex': {'outcome': ('returned', ('dict', [('number_of_burst_data', ('complex', '(1+2j)'))])),
                                                      'arguments_unchanged': True},
 'extract_attrs/value/number_of_lines_per_burst/complex': {'outcome': ('returned', ('dict', [('number_of_lines_per_burst', ('complex', '(1+2j)'))])),
                                                           'arguments_unchanged': True},
 'extract_attrs/value/number_of_overlap_lines_with_adjacent_bursts/complex': {'outcome': ('returned',
                                                                                          ('dict',
                                                                                           [('number_of_overlap_lines_with_adjacent_bursts',
                                                                                             ('complex', '(1+2j)'))])),
                                                                              'arguments_unchanged': True},
 'extract_attrs/value/something_else/complex': {'outcome': ('returned', ('dict', [])), 'arguments_unchanged': True},
 'extract_attrs/value/interleaving_id/decimal': {'outcome': ('returned', ('dict', [('interleaving_id', ('object', 'decimal', 'Decimal', "Decimal('3.5')"))])),
                                                 'arguments_unchanged': True},
 'extract_attrs/value/maximum_data_range_of_pixel/decimal': {'outcome': ('returned',
                                                                         ('dict', [('valid_range', [0, ('object', 'decimal', 'Decimal', "Decimal('3.5')")])])),
                                                             'arguments_unchanged': True},
 'extract_attrs/value/number_of_burst_data/decimal': {'outcome': ('returned',
                                                                  ('dict', [('number_of_burst_data', ('object', 'decimal', 'Decimal', "Decimal('3.5')"))])),
                                                      'arguments_unchanged': True},
 'extract_attrs/value/number_of_lines_per_burst/decimal': {'outcome': ('returned',
                                                                       ('dict',
                                                                        [('number_of_lines_per_burst', ('object', 'decimal', 'Decimal', "Decimal('3.5')"))])),
                                                           'arguments_unchanged': True},
 'extract_attrs/value/number_of_overlap_lines_with_adjacent_bursts/decimal': {'outcome': ('returned',
                                                                                          ('dict',
                                                                                           [('number_of_overlap_lines_with_adjacent_bursts',
                                                                                             ('object', 'decimal', 'Decimal', "Decimal('3.5')"))])),
                                                                              'arguments_unchanged': True},
 'extract_attrs/value/something_else/decimal': {'outcome': ('returned', ('dict', [])), 'arguments_unchanged': True},
 'extract_attrs/value/interleaving_id/decimal-nan': {'outcome': ('returned',
                                                                 ('dict', [('interleaving_id', ('object', 'decimal', 'Decimal', "Decimal('NaN')"))])),
                                                     'arguments_unchanged': True},
 'extract_attrs/value/maximum_data_range_of_pixel/decimal-nan': {'outcome': ('returned', ('dict', [])), 'arguments_unchanged': True},
 'extract_attrs/value/number_of_burst_data/decimal-nan': {'outcome': ('returned',
                                                                      ('dict', [('number_of_burst_data', ('object', 'decimal', 'Decimal', "Decimal('NaN')"))])),
                                                          'arguments_unchanged': True},
 'extract_attrs/value/number_of_lines_per_burst/decimal-nan': {'outcome': ('returned',
                                                                           ('dict',
                                                                            [('number_of_lines_per_burst',
                                                                              ('object', 'decimal', 'Decimal', "Decimal('NaN')"))])),
                                                               'arguments_unchanged': True},
 'extract_attrs/value/number_of_overlap_lines_with_adjacent_bursts/decimal-nan': {'outcome': ('returned',
                                                                                              ('dict',
                                                                                               [('number_of_overlap_lines_with_adjacent_bursts',
                                                                                                 ('object', 'decimal', 'Decimal', "Decimal('NaN')"))])),
                                                                                  'arguments_unchanged': True},
 'extract_attrs/value/something_else/decimal-nan': {'outcome': ('returned', ('dict', [])), 'arguments_unchanged': True},
 'extract_attrs/value/interleaving_id/fraction': {'outcome': ('returned',
                                                              ('dict', [('interleaving_id', ('object', 'fractions', 'Fraction', 'Fraction(-1, 1)'))])),
                                                  'arguments_unchanged': True},
 'extract_attrs/value/maximum_data_range_of_pixel/fraction': {'outcome': ('returned', ('dict', [])), 'arguments_unchanged': True},
 'extract_attrs/value/number_of_burst_data/fraction': {'outcome': ('returned', ('dict', [])), 'arguments_unchanged': True},
 'extract_attrs/value/number_of_lines_per_burst/fraction': {'outcome': ('returned', ('dict', [])), 'arguments_unchanged': True},
 'extract_attrs/value/number_of_overlap_lines_with_adjacent_bursts/fraction': {'outcome': ('returned', ('dict', [])), 'arguments_unchanged': True},
 'extract_attrs/value/something_else/fraction': {'outcome': ('returned', ('dict', [])), 'arguments_unchanged': True},
 'extract_attrs/value/interleaving_id/np-int': {'outcome': ('returned', ('dict', [('interleaving_id', ('npscalar', 'int64', '7'))])),
                                                'arguments_unchanged': True},
 'extract_attrs/value/maximum_data_range_of_pixel/np-int': {'outcome': ('returned', ('dict', [('valid_range', [0, ('npscalar', 'int64', '7')])])),
                                                            'arguments_unchanged': True},
 'extract_attrs/value/number_of_burst_data/np-int': {'outcome': ('returned', ('dict', [('number_of_burst_data', ('npscalar', 'int64', '7'))])),
                                                     'arguments_unchanged': True},
 'extract_attrs/value/number_of_lines_per_burst/np-int': {'outcome': ('returned', ('dict', [('number_of_lines_per_burst', ('npscalar', 'int64', '7'))])),
                                                          'arguments_unchanged': True},
 'extract_attrs/value/number_of_overlap_lines_with_adjacent_bursts/np-int': {'outcome': ('returned',
                                                                                         ('dict',
                                                                                          [('number_of_overlap_lines_with_adjacent_bursts',
                                                                                            ('npscalar', 'int64', '7'))])),
                                                                             'arguments_unchanged': True},
 'extract_attrs/value/something_else/np-int': {'outcome': ('returned', ('dict', [])), 'arguments_unchanged': True},
 'extract_attrs/value/interleaving_id/np-minus-one': {'outcome': ('returned', ('dict', [('interleaving_id', ('npscalar', 'int32', '-1'))])),
                                                      'arguments_unchanged': True},
 'extract_attrs/value/maximum_data_range_of_pixel/np-minus-one': {'outcome': ('returned', ('dict', [])), 'arguments_unchanged': True},
 'extract_attrs/value/number_of_burst_data/np-minus-one': {'outcome': ('returned', ('dict', [])), 'arguments_unchanged': True},
 'extract_attrs/value/number_of_lines_per_burst/np-minus-one': {'outcome': ('returned', ('dict', [])), 'arguments_unchanged': True},
 'extract_attrs/value/number_of_overlap_lines_with_adjacent_bursts/np-minus-one': {'outcome': ('returned', ('dict', [])), 'arguments_unchanged': True},
 'extract_attrs/value/something_else/np-minus-one': {'outcome': ('returned', ('dict', [])), 'arguments_unchanged': True},
 'extract_attrs/value/interleaving_id/np-nan': {'outcome': ('returned', ('dict', [('interleaving_id', ('npscalar', 'float32', 'nan'))])),
                                                'arguments_unchanged': True},
 'extract_attrs/value/maximum_data_range_of_pixel/np-nan': {'outcome': ('returned', ('dict', [])), 'arguments_unchanged': True},
 'extract_attrs/value/number_of_burst_data/np-nan': {'outcome': ('returned', ('dict', [('number_of_burst_data', ('npscalar', 'float32', 'nan'))])),
                                                     'arguments_unchanged': True},
 'extract_attrs/value/number_of_lines_per_burst/np-nan': {'outcome': ('returned', ('dict', [('number_of_lines_per_burst', ('npscalar', 'float32', 'nan'))])),
                                                          'arguments_unchanged': True},
 'extract_attrs/value/number_of_overlap_lines_with_adjacent_bursts/np-nan': {'outcome': ('returned',
                                                                                         ('dict',
                                                                                          [('number_of_overlap_lines_with_adjacent_bursts',
                                                                                            ('npscalar', 'float32', 'nan'))])),
                                                                             'arguments_unchanged': True},
 'extract_attrs/value/something_else/np-nan': {'outcome': ('returned', ('dict', [])), 'arguments_unchanged': True},
 'extract_attrs/value/interleaving_id/np-float': {'outcome': ('returned', ('dict', [('interleaving_id', ('npscalar', 'float64', '1.5'))])),
                                                  'arguments_unchanged': True},
 'extract_attrs/value/maximum_data_range_of_pixel/np-float': {'outcome': ('returned', ('dict', [('valid_range', [0, ('npscalar', 'float64', '1.5')])])),
                                                              'arguments_unchanged': True},
 'extract_attrs/value/number_of_burst_data/np-float': {'outcome': ('returned', ('dict', [('number_of_burst_data', ('npscalar', 'float64', '1.5'))])),
                                                       'arguments_unchanged': True},
 'extract_attrs/value/number_of_lines_per_burst/np-float': {'outcome': ('returned', ('dict', [('number_of_lines_per_burst', ('npscalar', 'float64', '1.5'))])),
                                                            'arguments_unchanged': True},
 'extract_attrs/value/number_of_overlap_lines_with_adjacent_bursts/np-float': {'outcome': ('returned',
                                                                                           ('dict',
                                                                                            [('number_of_overlap_lines_with_adjacent_bursts',
                                                                                              ('npscalar', 'float64', '1.5'))])),
                                                                               'arguments_unchanged': True},
 'extract_attrs/value/something_else/np-float': {'outcome': ('returned', ('dict', [])), 'arguments_unchanged': True},
 'extract_attrs/value/interleaving_id/np-array': {'outcome': ('returned', ('dict', [('interleaving_id', ('ndarray', 'int64', (2,), ['1', '-1']))])),
                                                  'arguments_unchanged': True},
 'extract_attrs/value/maximum_data_range_of_pixel/np-array': {'outcome': ('raised', 'builtins', 'ValueError',
                                                                          'The truth value of an array with more than one element is ambiguous. Use a.any() or '
                                                                          'a.all()'),
                                                              'arguments_unchanged': True},
 'extract_attrs/value/number_of_burst_data/np-array': {'outcome': ('raised', 'builtins', 'ValueError',
                                                                   'The truth value of an array with more than one element is ambiguous. Use a.any() or '
                                                                   'a.all()'),
                                                       'arguments_unchanged': True},
 'extract_attrs/value/number_of_lines_per_burst/np-array': {'outcome': ('raised', 'builtins', 'ValueError',
                                                                        'The truth value of an array with more than one element is ambiguous. Use a.any() or '
                                                                        'a.all()'),
                                                            'arguments_unchanged': True},
 'extract_attrs/value/number_of_overlap_lines_with_adjacent_bursts/np-array': {'outcome': ('raised', 'builtins', 'ValueError',
                                                                                           'The truth value of an array with more than one element is '
                                                                                           'ambiguous. Use a.any() or a.all()'),
                                                                               'arguments_unchanged': True},
 'extract_attrs/value/something_else/np-array': {'outcome': ('returned', ('dict', [])), 'arguments_unchanged': True},
 'extract_attrs/value/interleaving_id/np-array0': {'outcome': ('returned', ('dict', [('interleaving_id', ('ndarray', 'int64', (), ['-1']))])),
                                                   'arguments_unchanged': True},
 'extract_attrs/value/maximum_data_range_of_pixel/np-array0': {'outcome': ('returned', ('dict', [])), 'arguments_unchanged': True},
 'extract_attrs/value/number_of_burst_data/np-array0': {'outcome': ('returned', ('dict', [])), 'arguments_unchanged': True},
 'extract_attrs/value/number_of_lines_per_burst/np-array0': {'outcome': ('returned', ('dict', [])), 'arguments_unchanged': True},
 'extract_attrs/value/number_of_overlap_lines_with_adjacent_bursts/np-array0': {'outcome': ('returned', ('dict', [])), 'arguments_unchanged': True},
 'extract_attrs/value/something_else/np-array0': {'outcome': ('returned', ('dict', [])), 'arguments_unchanged': True},
 'extract_attrs/value/interleaving_id/np-array1': {'outcome': ('returned', ('dict', [('interleaving_id', ('ndarray', 'int64', (1,), ['3']))])),
                                                   'arguments_unchanged': True},
 'extract_attrs/value/maximum_data_range_of_pixel/np-array1': {'outcome': ('raised', 'builtins', 'TypeError',
                                                                           'only 0-dimensional arrays can be converted to Python scalars'),
                                                               'arguments_unchanged': True},
 'extract_attrs/value/number_of_burst_data/np-array1': {'outcome': ('returned', ('dict', [('number_of_burst_data', ('ndarray', 'int64', (1,), ['3']))])),
                                                        'arguments_unchanged': True},
 'extract_attrs/value/number_of_lines_per_burst/np-array1': {'outcome': ('returned',
                                                                         ('dict', [('number_of_lines_per_burst', ('ndarray', 'int64', (1,), ['3']))])),
                                                             'arguments_unchanged': True},
 'extract_attrs/value/number_of_overlap_lines_with_adjacent_bursts/np-array1': {'outcome': ('returned',
                                                                                            ('dict',
                                                                                             [('number_of_overlap_lines_with_adjacent_bursts',
                                                                                               ('ndarray', 'int64', (1,), ['3']))])),
                                                                                'arguments_unchanged': True},
 'extract_attrs/value/something_else/np-array1': {'outcome': ('returned', ('dict', [])), 'arguments_unchanged': True},
 'extract_attrs/value/interleaving_id/big': {'outcome': ('returned', ('dict', [('interleaving_id', 10000000000000000000000000000000000000000)])),
                                             'arguments_unchanged': True},
 'extract_attrs/value/maximum_data_range_of_pixel/big': {'outcome': ('returned', ('dict', [('valid_range', [0, 10000000000000000000000000000000000000000])])),
                                                         'arguments_unchanged': True},
 'extract_attrs/value/number_of_burst_data/big': {'outcome': ('returned', ('dict', [('number_of_burst_data', 10000000000000000000000000000000000000000)])),
                                                  'arguments_unchanged': True},
 'extract_attrs/value/number_of_lines_per_burst/big': {'outcome': ('returned',
                                                                   ('dict', [('number_of_lines_per_burst', 10000000000000000000000000000000000000000)])),
                                                       'arguments_unchanged': True},
 'extract_attrs/value/number_of_overlap_lines_with_adjacent_bursts/big': {'outcome': ('returned',
                                                                                      ('dict',
                                                                                       [('number_of_overlap_lines_with_adjacent_bursts',
                                                                                         10000000000000000000000000000000000000000)])),
                                                                          'arguments_unchanged': True},
 'extract_attrs/value/something_else/big': {'outcome': ('returned', ('dict', [])), 'arguments_unchanged': True},
 'extract_attrs/value/interleaving_id/set': {'outcome': ('returned', ('dict', [('interleaving_id', ('set', [1]))])), 'arguments_unchanged': True},
 'extract_attrs/value/maximum_data_range_of_pixel/set': {'outcome': ('raised', 'builtins', 'TypeError', 'must be real number, not set'),
                                                         'arguments_unchanged': True},
 'extract_attrs/value/number_of_burst_data/set': {'outcome': ('returned', ('dict', [('number_of_burst_data', ('set', [1]))])), 'arguments_unchanged': True},
 'extract_attrs/value/number_of_lines_per_burst/set': {'outcome': ('returned', ('dict', [('number_of_lines_per_burst', ('set', [1]))])),
                                                       'arguments_unchanged': True},
 'extract_attrs/value/number_of_overlap_lines_with_adjacent_bursts/set': {'outcome': ('returned',
                                                                                      ('dict',
                                                                                       [('number_of_overlap_lines_with_adjacent_bursts', ('set', [1]))])),
                                                                          'arguments_unchanged': True},
 'extract_attrs/value/something_else/set': {'outcome': ('returned', ('dict', [])), 'arguments_unchanged': True},
 'extract_attrs/value/interleaving_id/datetime': {'outcome': ('returned', ('dict', [('interleaving_id', ('datetime', '2020-01-01T00:00:00'))])),
                                                  'arguments_unchanged': True},
 'extract_attrs/value/maximum_data_range_of_pixel/datetime': {'outcome': ('raised', 'builtins', 'TypeError', 'must be real number, not datetime.datetime'),
                                                              'arguments_unchanged': True},
 'extract_attrs/value/number_of_burst_data/datetime': {'outcome': ('returned', ('dict', [('number_of_burst_data', ('datetime', '2020-01-01T00:00:00'))])),
                                                       'arguments_unchanged': True},
 'extract_attrs/value/number_of_lines_per_burst/datetime': {'outcome': ('returned',
                                                                        ('dict', [('number_of_lines_per_burst', ('datetime', '2020-01-01T00:00:00'))])),
                                                            'arguments_unchanged': True},
 'extract_attrs/value/number_of_overlap_lines_with_adjacent_bursts/datetime': {'outcome': ('returned',
                                                                                           ('dict',
                                                                                            [('number_of_overlap_lines_with_adjacent_bursts',
                                                                                              ('datetime', '2020-01-01T00:00:00'))])),
                                                                               'arguments_unchanged': True},
 'extract_attrs/value/something_else/datetime': {'outcome': ('returned', ('dict', [])), 'arguments_unchanged': True},
 'extract_attrs/keys/not-strings': {'outcome': ('returned', ('dict', [('number_of_burst_data', 2)])), 'arguments_unchanged': True},
 'extract_attrs/keys/translated-name-present': {'outcome': ('returned', ('dict', [('valid_range', [0, 9])])), 'arguments_unchanged': True},
 'extract_attrs/not-a-mapping/none': {'outcome': ('raised', 'builtins', 'AttributeError', "'NoneType' object has no attribute 'items'"),
                                      'arguments_unchanged': True},
 'extract_attrs/not-a-mapping/list': {'outcome': ('raised', 'builtins', 'AttributeError', "'list' object has no attribute 'items'"),
                                      'arguments_unchanged': True},
 'extract_attrs/not-a-mapping/pairs': {'outcome': ('raised', 'builtins', 'AttributeError', "'list' object has no attribute 'items'"),
                                       'arguments_unchanged': True},
 'extract_attrs/not-a-mapping/int': {'outcome': ('raised', 'builtins', 'AttributeError', "'int' object has no attribute 'items'"), 'arguments_unchanged': True},
 'extract_attrs/not-a-mapping/str': {'outcome': ('raised', 'builtins', 'AttributeError', "'str' object has no attribute 'items'"), 'arguments_unchanged': True},
 'extract_attrs/fresh-results': {'outcome': ('returned', ('dict', [('valid_range', [0, 27]), ('number_of_burst_data', 4), ('interleaving_id', 'BSQ')])),
                                 'arguments_unchanged': True},
 'extract_attrs/fresh-results/modified': ('dict', [('valid_range', [0, 27, 'modified']), ('number_of_burst_data', 4), ('interleaving_id', 'BSQ'), ('new', 1)]),
 'extract_attrs/real/level1.1': {'outcome': ('returned', ('dict', [('interleaving_id', 'BSQ')])), 'arguments_unchanged': True},
 'extract_attrs/real/level1.5': {'outcome': ('returned', ('dict', [('interleaving_id', 'BSQ'), ('valid_range', [0, 65535])])), 'arguments_unchanged': True},
 'extract_attrs/real/specan': {'outcome': ('returned',
                                           ('dict',
                                            [('interleaving_id', 'BSQ'), ('number_of_burst_data', 12), ('number_of_lines_per_burst', 345),
                                             ('number_of_overlap_lines_with_adjacent_bursts', 6)])),
                               'arguments_unchanged': True},
 'extract_attrs/real/zeros': {'outcome': ('returned',
                                          ('dict',
                                           [('interleaving_id', ''), ('valid_range', [0, 0]), ('number_of_burst_data', 0), ('number_of_lines_per_burst', 0),
                                            ('number_of_overlap_lines_with_adjacent_bursts', 0)])),
                              'arguments_unchanged': True},
 'apply_overrides/suite/a': {'outcome': ('returned',
                                         ('dict',
                                          [('a', ('x', ('ndarray', 'int8', (2,), ['1', '2']), ('dict', []))),
                                           ('b', ('y', [1.0, 2.1], ('dict', [('units', 'm')]))), ('c', ('x', ['1', '2'], ('dict', [])))])),
                             'arguments_unchanged': True,
                             'same_objects': [('a', False, 'tuple'), ('b', True, 'tuple'), ('c', True, 'tuple')],
                             'new_mapping': True},
 'apply_overrides/suite/b': {'outcome': ('returned',
                                         ('dict',
                                          [('a', ('x', [1, 2], ('dict', []))),
                                           ('b', ('y', ('ndarray', 'float16', (2,), ['1.0', '2.1']), ('dict', [('units', 'm')]))),
                                           ('c', ('x', ['1', '2'], ('dict', [])))])),
                             'arguments_unchanged': True,
                             'same_objects': [('a', True, 'tuple'), ('b', False, 'tuple'), ('c', True, 'tuple')],
                             'new_mapping': True},
 'apply_overrides/none': {'outcome': ('returned',
                                      ('dict',
                                       [('a', ('x', [1, 2], ('dict', []))), ('b', ('y', [1.0, 2.1], ('dict', [('units', 'm')]))),
                                        ('c', ('x', ['1', '2'], ('dict', [])))])),
                          'arguments_unchanged': True,
                          'same_objects': [('a', True, 'tuple'), ('b', True, 'tuple'), ('c', True, 'tuple')],
                          'new_mapping': True},
 'apply_overrides/all': {'outcome': ('returned',
                                     ('dict',
                                      [('a', ('x', ('ndarray', 'float32', (2,), ['1.0', '2.0']), ('dict', []))),
                                       ('b', ('y', ('ndarray', 'int16', (2,), ['1', '2']), ('dict', [('units', 'm')]))),
                                       ('c', ('x', ('ndarray', 'int64', (2,), ['1', '2']), ('dict', [])))])),
                         'arguments_unchanged': True,
                         'same_objects': [('a', False, 'tuple'), ('b', False, 'tuple'), ('c', False, 'tuple')],
                         'new_mapping': True},
 'apply_overrides/all/reversed-overrides': {'outcome': ('returned',
                                                        ('dict',
                                                         [('a', ('x', ('ndarray', 'float32', (2,), ['1.0', '2.0']), ('dict', []))),
                                                          ('b', ('y', ('ndarray', 'int16', (2,), ['1', '2']), ('dict', [('units', 'm')]))),
                                                          ('c', ('x', ('ndarray', 'int64', (2,), ['1', '2']), ('dict', [])))])),
                                            'arguments_unchanged': True,
                                            'same_objects': [('a', False, 'tuple'), ('b', False, 'tuple'), ('c', False, 'tuple')],
                                            'new_mapping': True},
 'apply_overrides/missing-name': {'outcome': ('returned',
                                              ('dict',
                                               [('a', ('x', ('ndarray', '>u2', (2,), ['1', '2']), ('dict', []))),
                                                ('b', ('y', [1.0, 2.1], ('dict', [('units', 'm')]))), ('c', ('x', ['1', '2'], ('dict', [])))])),
                                  'arguments_unchanged': True,
                                  'same_objects': [('a', False, 'tuple'), ('b', True, 'tuple'), ('c', True, 'tuple')],
                                  'new_mapping': True},
 'apply_overrides/empty-mapping': {'outcome': ('returned', ('dict', [])), 'arguments_unchanged': True, 'same_objects': [], 'new_mapping': True},
 'apply_overrides/dates': {'outcome': ('returned',
                                       ('dict',
                                        [('t',
                                          ('rows', ('ndarray', 'datetime64[ns]', (2,), ['2020-10-01T12:37:42.451000000', '2021-01-02T00:00:00.000000000']),
                                           ('dict', []))),
                                         ('u', ('rows', ('ndarray', 'datetime64[ns]', (0,), []), ('dict', [('k', 1)])))])),
                           'arguments_unchanged': True,
                           'same_objects': [('t', False, 'tuple'), ('u', False, 'tuple')],
                           'new_mapping': True},
 'apply_overrides/dates/seconds': {'outcome': ('returned',
                                               ('dict',
                                                [('t',
                                                  ('rows', ('ndarray', 'datetime64[s]', (2,), ['2020-10-01T12:37:42', '2021-01-02T00:00:00']), ('dict', []))),
                                                 ('u', ('rows', [], ('dict', [('k', 1)])))])),
                                   'arguments_unchanged': True,
                                   'same_objects': [('t', False, 'tuple'), ('u', True, 'tuple')],
                                   'new_mapping': True},
 'apply_overrides/dtype-objects': {'outcome': ('returned',
                                               ('dict',
                                                [('a', ('x', ('ndarray', 'complex64', (2,), ['(1+0j)', '(2+0j)']), ('dict', []))),
                                                 ('b', ('y', ('ndarray', 'float32', (2,), ['1.0', '2.1']), ('dict', [('units', 'm')]))),
                                                 ('c', ('x', ('ndarray', 'float64', (2,), ['1.0', '2.0']), ('dict', [])))])),
                                   'arguments_unchanged': True,
                                   'same_objects': [('a', False, 'tuple'), ('b', False, 'tuple'), ('c', False, 'tuple')],
                                   'new_mapping': True},
 'apply_overrides/dtype/none': {'outcome': ('returned',
                                            ('dict',
                                             [('a', ('x', ('ndarray', 'int64', (2,), ['1', '2']), ('dict', []))),
                                              ('b', ('y', [1.0, 2.1], ('dict', [('units', 'm')]))), ('c', ('x', ['1', '2'], ('dict', [])))])),
                                'arguments_unchanged': True,
                                'same_objects': [('a', False, 'tuple'), ('b', True, 'tuple'), ('c', True, 'tuple')],
                                'new_mapping': True},
 'apply_overrides/dtype/invalid': {'outcome': ('raised', 'builtins', 'TypeError', "data type 'no-such-dtype' not understood"), 'arguments_unchanged': True},
 'apply_overrides/dtype/invalid-second': {'outcome': ('raised', 'builtins', 'TypeError', "data type 'no-such-dtype' not understood"),
                                          'arguments_unchanged': True},
 'apply_overrides/unconvertible': {'outcome': ('raised', 'builtins', 'ValueError', "invalid literal for int() with base 10: 'a'"), 'arguments_unchanged': True},
 'apply_overrides/overflow': {'outcome': ('raised', 'builtins', 'OverflowError', 'Python integer 1000 out of bounds for int8'), 'arguments_unchanged': True},
 'apply_overrides/two-tuple': {'outcome': ('raised', 'builtins', 'ValueError', 'not enough values to unpack (expected 3, got 2)'), 'arguments_unchanged': True},
 'apply_overrides/two-tuple/not-overridden': {'outcome': ('returned',
                                                          ('dict', [('a', ([1, 2], ('dict', []))), ('b', ((), ('ndarray', 'int8', (), ['1']), ('dict', [])))])),
                                              'arguments_unchanged': True,
                                              'same_objects': [('a', True, 'tuple'), ('b', False, 'tuple')],
                                              'new_mapping': True},
 'apply_overrides/four-tuple': {'outcome': ('raised', 'builtins', 'ValueError', 'too many values to unpack (expected 3)'), 'arguments_unchanged': True},
 'apply_overrides/not-a-tuple': {'outcome': ('raised', 'builtins', 'TypeError', 'cannot unpack non-iterable int object'), 'arguments_unchanged': True},
 'apply_overrides/string-value': {'outcome': ('raised', 'builtins', 'ValueError', "invalid literal for int() with base 10: 'y'"), 'arguments_unchanged': True},
 'apply_overrides/list-value': {'outcome': ('returned', ('dict', [('a', ('x', ('ndarray', 'int8', (2,), ['1', '2']), ('dict', [('n', 1)])))])),
                                'arguments_unchanged': True,
                                'same_objects': [('a', False, 'tuple')],
                                'new_mapping': True},
 'apply_overrides/array-value': {'outcome': ('returned', ('dict', [('a', ('x', ('ndarray', 'float64', (2,), ['1.0', '2.0']), ('dict', [])))])),
                                 'arguments_unchanged': True,
                                 'same_objects': [('a', False, 'tuple')],
                                 'new_mapping': True},
 'apply_overrides/nested-data': {'outcome': ('returned', ('dict', [('a', (('x', 'y'), ('ndarray', 'int16', (2, 2), ['1', '2', '3', '4']), ('dict', [])))])),
                                 'arguments_unchanged': True,
                                 'same_objects': [('a', False, 'tuple')],
                                 'new_mapping': True},
 'apply_overrides/ragged-data': {'outcome': ('raised', 'builtins', 'ValueError',
                                             'setting an array element with a sequence. The requested array has an inhomogeneous shape after 1 dimensions. The '
                                             'detected shape was (2,) + inhomogeneous part.'),
                                 'arguments_unchanged': True},
 'apply_overrides/scalar-data': {'outcome': ('returned', ('dict', [('a', ((), ('ndarray', 'int16', (), ['3']), ('dict', [])))])),
                                 'arguments_unchanged': True,
                                 'same_objects': [('a', False, 'tuple')],
                                 'new_mapping': True},
 'apply_overrides/overrides/list': {'outcome': ('raised', 'builtins', 'TypeError', 'list indices must be integers or slices, not str'),
                                    'arguments_unchanged': True},
 'apply_overrides/overrides/set': {'outcome': ('raised', 'builtins', 'TypeError', "'set' object is not subscriptable"), 'arguments_unchanged': True},
 'apply_overrides/overrides/str': {'outcome': ('raised', 'builtins', 'TypeError', "string indices must be integers, not 'str'"), 'arguments_unchanged': True},
 'apply_overrides/overrides/none': {'outcome': ('raised', 'builtins', 'TypeError', "argument of type 'NoneType' is not iterable"), 'arguments_unchanged': True},
 'apply_overrides/mapping/none': {'outcome': ('raised', 'builtins', 'AttributeError', "'NoneType' object has no attribute 'items'"),
                                  'arguments_unchanged': True},
 'apply_overrides/mapping/list': {'outcome': ('raised', 'builtins', 'AttributeError', "'list' object has no attribute 'items'"), 'arguments_unchanged': True},
 'apply_overrides/keys/not-strings': {'outcome': ('returned',
                                                  ('dict',
                                                   [(1, ('x', ('ndarray', 'int8', (1,), ['1']), ('dict', []))),
                                                    (None, ('x', ('ndarray', 'float32', (1,), ['2.0']), ('dict', []))), (2, 0)])),
                                      'arguments_unchanged': True,
                                      'same_objects': [(1, False, 'tuple'), (None, False, 'tuple'), (2, True, 'int')],
                                      'new_mapping': True},
 'deduplicate_attrs/suite/b': {'outcome': ('returned', ('dict', [('a', 1), ('c', ('y', [2, 2], ('dict', []))), ('b', 1)])),
                               'arguments_unchanged': True,
                               'same_objects': [('a', True, 'int'), ('c', True, 'tuple'), ('b', False, 'int')]},
 'deduplicate_attrs/suite/c': {'outcome': ('returned', ('dict', [('a', 1), ('b', ('x', [1, 1], ('dict', []))), ('c', 2)])),
                               'arguments_unchanged': True,
                               'same_objects': [('a', True, 'int'), ('b', True, 'tuple'), ('c', False, 'int')]},
 'deduplicate_attrs/suite/bc': {'outcome': ('returned', ('dict', [('a', 1), ('b', 1), ('c', 2)])),
                                'arguments_unchanged': True,
                                'same_objects': [('a', True, 'int'), ('b', False, 'int'), ('c', False, 'int')]},
 'deduplicate_attrs/none-known': {'outcome': ('returned', ('dict', [('a', 1), ('b', ('x', [1, 1], ('dict', []))), ('c', ('y', [2, 2], ('dict', [])))])),
                                  'arguments_unchanged': True,
                                  'same_objects': [('a', True, 'int'), ('b', True, 'tuple'), ('c', True, 'tuple')]},
 'deduplicate_attrs/unknown-name': {'outcome': ('returned', ('dict', [('a', 1), ('b', ('x', [1, 1], ('dict', []))), ('c', ('y', [2, 2], ('dict', [])))])),
                                    'arguments_unchanged': True,
                                    'same_objects': [('a', True, 'int'), ('b', True, 'tuple'), ('c', True, 'tuple')]},
 'deduplicate_attrs/order': {'outcome': ('returned', ('dict', [('v', ('r', [5], ('dict', []))), ('w', 0), ('c', 3), ('a2', 'x')])),
                             'arguments_unchanged': True,
                             'same_objects': [('v', True, 'tuple'), ('w', True, 'int'), ('c', False, 'int'), ('a2', False, 'str')]},
 'deduplicate_attrs/known/set': {'outcome': ('returned', ('dict', [('a', 1), ('c', ('y', [2, 2], ('dict', []))), ('b', 1)])),
                                 'arguments_unchanged': True,
                                 'same_objects': [('a', True, 'int'), ('c', True, 'tuple'), ('b', False, 'int')]},
 'deduplicate_attrs/known/tuple': {'outcome': ('returned', ('dict', [('a', 1), ('b', 1), ('c', 2)])),
                                   'arguments_unchanged': True,
                                   'same_objects': [('a', True, 'int'), ('b', False, 'int'), ('c', False, 'int')]},
 'deduplicate_attrs/known/dict': {'outcome': ('returned', ('dict', [('a', 1), ('c', ('y', [2, 2], ('dict', []))), ('b', 1)])),
                                  'arguments_unchanged': True,
                                  'same_objects': [('a', True, 'int'), ('c', True, 'tuple'), ('b', False, 'int')]},
 'deduplicate_attrs/known/str': {'outcome': ('raised', 'builtins', 'TypeError', "'int' object is not iterable"), 'arguments_unchanged': True},
 'deduplicate_attrs/known/str-substring': {'outcome': ('returned', ('dict', [('d', ('r', [3], ('dict', []))), ('bc', 1), ('b', 2)])),
                                           'arguments_unchanged': True,
                                           'same_objects': [('d', True, 'tuple'), ('bc', False, 'int'), ('b', False, 'int')]},
 'deduplicate_attrs/known/none': {'outcome': ('raised', 'builtins', 'TypeError', "argument of type 'NoneType' is not iterable"), 'arguments_unchanged': True},
 'deduplicate_attrs/known/int': {'outcome': ('raised', 'builtins', 'TypeError', "argument of type 'int' is not iterable"), 'arguments_unchanged': True},
 'deduplicate_attrs/differing-values': {'outcome': ('returned', ('dict', [('b', 1)])), 'arguments_unchanged': True, 'same_objects': [('b', False, 'int')]},
 'deduplicate_attrs/empty-data': {'outcome': ('returned', ('dict', [('a', 0)])), 'arguments_unchanged': True, 'same_objects': [('a', True, 'int')]},
 'deduplicate_attrs/empty-data/not-known': {'outcome': ('returned', ('dict', [('b', ('x', [], ('dict', []))), ('a', 5)])),
                                            'arguments_unchanged': True,
                                            'same_objects': [('b', True, 'tuple'), ('a', False, 'int')]},
 'deduplicate_attrs/short-tuple': {'outcome': ('returned', ('dict', [])), 'arguments_unchanged': True, 'same_objects': []},
 'deduplicate_attrs/empty-tuple': {'outcome': ('returned', ('dict', [])), 'arguments_unchanged': True, 'same_objects': []},
 'deduplicate_attrs/two-tuple': {'outcome': ('returned', ('dict', [])), 'arguments_unchanged': True, 'same_objects': []},
 'deduplicate_attrs/two-tuple/attrs-second': {'outcome': ('returned', ('dict', [('b', 'k')])),
                                              'arguments_unchanged': True,
                                              'same_objects': [('b', False, 'str')]},
 'deduplicate_attrs/scalar-known': {'outcome': ('raised', 'builtins', 'TypeError', "'int' object is not iterable"), 'arguments_unchanged': True},
 'deduplicate_attrs/string-known': {'outcome': ('returned', ('dict', [('a', 'y')])), 'arguments_unchanged': True, 'same_objects': [('a', False, 'str')]},
 'deduplicate_attrs/string-known/nested': {'outcome': ('returned', ('dict', [('a', 'y')])), 'arguments_unchanged': True, 'same_objects': [('a', False, 'str')]},
 'deduplicate_attrs/list-value': {'outcome': ('returned', ('dict', [('a', 2)])), 'arguments_unchanged': True, 'same_objects': [('a', False, 'int')]},
 'deduplicate_attrs/dict-value': {'outcome': ('returned', ('dict', [('a', 'q')])), 'arguments_unchanged': True, 'same_objects': [('a', False, 'str')]},
 'deduplicate_attrs/array-data': {'outcome': ('returned', ('dict', [('a', ('npscalar', 'uint16', '4'))])),
                                  'arguments_unchanged': True,
                                  'same_objects': [('a', False, 'uint16')]},
 'deduplicate_attrs/array-2d': {'outcome': ('returned', ('dict', [('a', ('ndarray', 'int64', (2,), ['4', '5']))])),
                                'arguments_unchanged': True,
                                'same_objects': [('a', False, 'ndarray')]},
 'deduplicate_attrs/array-0d': {'outcome': ('raised', 'builtins', 'TypeError', 'iteration over a 0-d array'), 'arguments_unchanged': True},
 'deduplicate_attrs/iterator-data': {'outcome': ('returned', ('dict', [('a', 10)]))},
 'deduplicate_attrs/datetime-data': {'outcome': ('returned', ('dict', [('a', ('datetime', '2020-01-01T00:00:00'))])),
                                     'arguments_unchanged': True,
                                     'same_objects': [('a', False, 'datetime')]},
 'deduplicate_attrs/scalar-data': {'outcome': ('raised', 'builtins', 'TypeError', "'int' object is not iterable"), 'arguments_unchanged': True},
 'deduplicate_attrs/none-data': {'outcome': ('raised', 'builtins', 'TypeError', "'NoneType' object is not iterable"), 'arguments_unchanged': True},
 'deduplicate_attrs/empty-mapping': {'outcome': ('returned', ('dict', [])), 'arguments_unchanged': True, 'same_objects': []},
 'deduplicate_attrs/mapping/none': {'outcome': ('raised', 'builtins', 'AttributeError', "'NoneType' object has no attribute 'items'"),
                                    'arguments_unchanged': True},
 'deduplicate_attrs/mapping/list': {'outcome': ('raised', 'builtins', 'AttributeError', "'list' object has no attribute 'items'"), 'arguments_unchanged': True},
 'deduplicate_attrs/all-known': {'outcome': ('returned', ('dict', [('a', 1), ('b', 2)])),
                                 'arguments_unchanged': True,
                                 'same_objects': [('a', False, 'int'), ('b', False, 'int')]},
 'deduplicate_attrs/keys/not-strings': {'outcome': ('returned', ('dict', [((1, 2), 0), (1, 1), (None, 2)])),
                                        'arguments_unchanged': True,
                                        'same_objects': [((1, 2), True, 'int'), (1, False, 'int'), (None, False, 'int')]},
 'transform_metadata/10/C*8': {'outcome': ('returned',
                                           (('Group', '/', None,
                                             ('dict',
                                              [('rows', ('Variable', ['rows'], [1, 2, 3], ('dict', []))),
                                               ('sensor_acquisition_date',
                                                ('Variable', ['rows'],
                                                 ('ndarray', 'datetime64[ns]', (3,),
                                                  ['2020-02-17T00:20:34.577000000', '2020-03-25T00:41:09.144000000', '2020-05-01T01:01:43.711000000']),
                                                 ('dict', []))),
                                               ('prf', ('Variable', ['rows'], [3, 16, 29], ('dict', [('units', 'mHz')]))),
                                               ('chirp_length', ('Variable', ['rows'], [24, 37, 50], ('dict', [('units', 'ns')]))),
                                               ('chirp_constant_coefficient', ('Variable', ['rows'], [31, 44, 57], ('dict', [('units', 'Hz')]))),
                                               ('chirp_linear_coefficient', ('Variable', ['rows'], [38, 51, 64], ('dict', [('units', 'Hz/µs')]))),
                                               ('chirp_quadratic_coefficient', ('Variable', ['rows'], [45, 58, 71], ('dict', [('units', 'Hz/µs^2')]))),
                                               ('sensor_acquisition_date_microseconds',
                                                ('Variable', ['rows'],
                                                 ('ndarray', 'datetime64[ns]', (3,),
                                                  ['2020-02-19T14:02:18.299451000', '2020-03-28T05:32:52.874312000', '2020-05-04T21:03:27.449173000']),
                                                 ('dict', []))),
                                               ('receiver_gain', ('Variable', ['rows'], [66, 79, 92], ('dict', [('units', 'dB')]))),
                                               ('invalid_line_flag', ('Variable', ['rows'], [True, True, True], ('dict', []))),
                                               ('elevation_angle_at_nadir_of_antenna',
                                                ('Variable', ['rows'],
                                                 [('dict',
                                                   [('electronic', (80, ('dict', [('units', 'deg')]))), ('mechanic', (87, ('dict', [('units', 'deg')])))]),
                                                  ('dict',
                                                   [('electronic', (93, ('dict', [('units', 'deg')]))), ('mechanic', (3, ('dict', [('units', 'deg')])))]),
                                                  ('dict',
                                                   [('electronic', (9, ('dict', [('units', 'deg')]))), ('mechanic', (16, ('dict', [('units', 'deg')])))])],
                                                 ('dict', []))),
                                               ('antenna_squint_angle',
                                                ('Variable', ['rows'],
                                                 [('dict',
                                                   [('electronic', (94, ('dict', [('units', 'deg')]))), ('mechanic', (4, ('dict', [('units', 'deg')])))]),
                                                  ('dict',
                                                   [('electronic', (10, ('dict', [('units', 'deg')]))), ('mechanic', (17, ('dict', [('units', 'deg')])))]),
                                                  ('dict',
                                                   [('electronic', (23, ('dict', [('units', 'deg')]))), ('mechanic', (30, ('dict', [('units', 'deg')])))])],
                                                 ('dict', []))),
                                               ('slant_range_to_first_data_sample', ('Variable', ['rows'], [11, 24, 37], ('dict', [('units', 'm')]))),
                                               ('data_record_window_position', ('Variable', ['rows'], [18, 31, 44], ('dict', [('units', 'ns')]))),
                                               ('platform_latitude', ('Variable', ['rows'], [3.9e-05, 5.2e-05, 6.5e-05], ('dict', [('units', 'deg')]))),
                                               ('platform_longitude', ('Variable', ['rows'], [4.6e-05, 5.9e-05, 7.2e-05], ('dict', [('units', 'deg')]))),
                                               ('platform_altitude', ('Variable', ['rows'], [53, 66, 79], ('dict', [('units', 'deg')]))),
                                               ('platform_ground_speed', ('Variable', ['rows'], [60, 73, 86], ('dict', [('units', 'cm/s')]))),
                                               ('platform_velocity',
                                                ('Variable', ['rows'],
                                                 [('dict',
                                                   [('x', (67, ('dict', [('units', 'cm/s')]))), ('y', (74, ('dict', [('units', 'cm/s')]))),
                                                    ('z', (81, ('dict', [('units', 'cm/s')])))]),
                                                  ('dict',
                                                   [('x', (80, ('dict', [('units', 'cm/s')]))), ('y', (87, ('dict', [('units', 'cm/s')]))),
                                                    ('z', (94, ('dict', [('units', 'cm/s')])))]),
                                                  ('dict',
                                                   [('x', (93, ('dict', [('units', 'cm/s')]))), ('y', (3, ('dict', [('units', 'cm/s')]))),
                                                    ('z', (10, ('dict', [('units', 'cm/s')])))])],
                                                 ('dict', []))),
                                               ('platform_acceleration',
                                                ('Variable', ['rows'],
                                                 [('dict',
                                                   [('x', (88, ('dict', [('units', 'cm/s^2')]))), ('y', (95, ('dict', [('units', 'cm/s^2')]))),
                                                    ('z', (5, ('dict', [('units', 'cm/s^2')])))]),
                                                  ('dict',
                                                   [('x', (4, ('dict', [('units', 'cm/s^2')]))), ('y', (11, ('dict', [('units', 'cm/s^2')]))),
                                                    ('z', (18, ('dict', [('units', 'cm/s^2')])))]),
                                                  ('dict',
                                                   [('x', (17, ('dict', [('units', 'cm/s^2')]))), ('y', (24, ('dict', [('units', 'cm/s^2')]))),
                                                    ('z', (31, ('dict', [('units', 'cm/s^2')])))])],
                                                 ('dict', []))),
                                               ('platform_track_angle',
                                                ('Variable', ['rows'], [1.2e-05, 2.4999999999999998e-05, 3.7999999999999995e-05],
                                                 ('dict', [('units', 'deg')]))),
                                               ('platform_true_track_angle',
                                                ('Variable', ['rows'], [1.8999999999999998e-05, 3.2e-05, 4.4999999999999996e-05],
                                                 ('dict', [('units', 'deg')]))),
                                               ('platform_attitude',
                                                ('Variable', ['rows'],
                                                 [('dict',
                                                   [('pitch', (2.6e-05, ('dict', [('units', 'deg')]))),
                                                    ('roll', (3.2999999999999996e-05, ('dict', [('units', 'deg')]))),
                                                    ('yaw', (3.9999999999999996e-05, ('dict', [('units', 'deg')])))]),
                                                  ('dict',
                                                   [('pitch', (3.9e-05, ('dict', [('units', 'deg')]))), ('roll', (4.6e-05, ('dict', [('units', 'deg')]))),
                                                    ('yaw', (5.3e-05, ('dict', [('units', 'deg')])))]),
                                                  ('dict',
                                                   [('pitch', (5.2e-05, ('dict', [('units', 'deg')]))), ('roll', (5.9e-05, ('dict', [('units', 'deg')]))),
                                                    ('yaw', (6.599999999999999e-05, ('dict', [('units', 'deg')])))])],
                                                 ('dict', []))),
                                               ('latitude_of_first_pixel',
                                                ('Variable', ['rows'], [4.7e-05, 5.9999999999999995e-05, 7.3e-05], ('dict', [('units', 'deg')]))),
                                               ('latitude_of_center_pixel',
                                                ('Variable', ['rows'], [5.4e-05, 6.7e-05, 7.999999999999999e-05], ('dict', [('units', 'deg')]))),
                                               ('latitude_of_last_pixel', ('Variable', ['rows'], [6.1e-05, 7.4e-05, 8.7e-05], ('dict', [('units', 'deg')]))),
                                               ('longitude_of_first_pixel',
                                                ('Variable', ['rows'], [6.8e-05, 8.099999999999999e-05, 9.4e-05], ('dict', [('units', 'deg')]))),
                                               ('longitude_of_center_pixel', ('Variable', ['rows'], [7.5e-05, 8.8e-05, 4e-06], ('dict', [('units', 'deg')]))),
                                               ('longitude_of_last_pixel',
                                                ('Variable', ['rows'], [8.2e-05, 9.499999999999999e-05, 1.1e-05], ('dict', [('units', 'deg')]))),
                                               ('burst_number', ('Variable', ['rows'], [89, 5, 18], ('dict', []))),
                                               ('line_number_in_this_burst', ('Variable', ['rows'], [96, 12, 25], ('dict', [])))]),
                                             ('dict',
                                              [('sar_image_data_record_index', 1), ('sensor_parameters_update_flag', 58),
                                               ('sar_channel_id', ('subclass', 'EnumInteger', 0)), ('sar_channel_code', ('subclass', 'EnumInteger', 86)),
                                               ('transmitted_pulse_polarization', 'horizontal'),
                                               ('received_pulse_polarization', ('subclass', 'EnumInteger', 93)), ('scan_id', 10),
                                               ('onboard_range_compressed_flag', False), ('chirp_type_designator', ('subclass', 'EnumInteger', 17)),
                                               ('platform_position_parameters_update_flag', ('subclass', 'EnumInteger', 32)), ('interleaving_id', 'BSQ'),
                                               ('coordinates',
                                                ['rows', 'sensor_acquisition_date', 'prf', 'chirp_length', 'chirp_constant_coefficient',
                                                 'chirp_linear_coefficient', 'chirp_quadratic_coefficient', 'sensor_acquisition_date_microseconds',
                                                 'receiver_gain', 'invalid_line_flag', 'elevation_angle_at_nadir_of_antenna', 'antenna_squint_angle',
                                                 'slant_range_to_first_data_sample', 'data_record_window_position', 'platform_latitude', 'platform_longitude',
                                                 'platform_altitude', 'platform_ground_speed', 'platform_velocity', 'platform_acceleration',
                                                 'platform_track_angle', 'platform_true_track_angle', 'platform_attitude', 'latitude_of_first_pixel',
                                                 'latitude_of_center_pixel', 'latitude_of_last_pixel', 'longitude_of_first_pixel', 'longitude_of_center_pixel',
                                                 'longitude_of_last_pixel', 'burst_number', 'line_number_in_this_burst'])])),
                                            ('dict',
                                             [('type_code', 'C*8'), ('shape', (3, 2)), ('dtype', 'complex64'),
                                              ('byte_ranges', [(1264, 1280), (1824, 1840), (2384, 2400)])]))),
                               'arguments_unchanged': True},
 'transform_line_metadata/10/C*8': {'outcome': ('returned',
                                                ('Group', '/', None,
                                                 ('dict',
                                                  [('rows', ('Variable', ['rows'], [1, 2, 3], ('dict', []))),
                                                   ('sensor_acquisition_date',
                                                    ('Variable', ['rows'],
                                                     ('ndarray', 'datetime64[ns]', (3,),
                                                      ['2020-02-17T00:20:34.577000000', '2020-03-25T00:41:09.144000000', '2020-05-01T01:01:43.711000000']),
                                                     ('dict', []))),
                                                   ('prf', ('Variable', ['rows'], [3, 16, 29], ('dict', [('units', 'mHz')]))),
                                                   ('chirp_length', ('Variable', ['rows'], [24, 37, 50], ('dict', [('units', 'ns')]))),
                                                   ('chirp_constant_coefficient', ('Variable', ['rows'], [31, 44, 57], ('dict', [('units', 'Hz')]))),
                                                   ('chirp_linear_coefficient', ('Variable', ['rows'], [38, 51, 64], ('dict', [('units', 'Hz/µs')]))),
                                                   ('chirp_quadratic_coefficient', ('Variable', ['rows'], [45, 58, 71], ('dict', [('units', 'Hz/µs^2')]))),
                                                   ('sensor_acquisition_date_microseconds',
                                                    ('Variable', ['rows'],
                                                     ('ndarray', 'datetime64[ns]', (3,),
                                                      ['2020-02-19T14:02:18.299451000', '2020-03-28T05:32:52.874312000', '2020-05-04T21:03:27.449173000']),
                                                     ('dict', []))),
                                                   ('receiver_gain', ('Variable', ['rows'], [66, 79, 92], ('dict', [('units', 'dB')]))),
                                                   ('invalid_line_flag', ('Variable', ['rows'], [True, True, True], ('dict', []))),
                                                   ('elevation_angle_at_nadir_of_antenna',
                                                    ('Variable', ['rows'],
                                                     [('dict',
                                                       [('electronic', (80, ('dict', [('units', 'deg')]))), ('mechanic', (87, ('dict', [('units', 'deg')])))]),
                                                      ('dict',
                                                       [('electronic', (93, ('dict', [('units', 'deg')]))), ('mechanic', (3, ('dict', [('units', 'deg')])))]),
                                                      ('dict',
                                                       [('electronic', (9, ('dict', [('units', 'deg')]))), ('mechanic', (16, ('dict', [('units', 'deg')])))])],
                                                     ('dict', []))),
                                                   ('antenna_squint_angle',
                                                    ('Variable', ['rows'],
                                                     [('dict',
                                                       [('electronic', (94, ('dict', [('units', 'deg')]))), ('mechanic', (4, ('dict', [('units', 'deg')])))]),
                                                      ('dict',
                                                       [('electronic', (10, ('dict', [('units', 'deg')]))), ('mechanic', (17, ('dict', [('units', 'deg')])))]),
                                                      ('dict',
                                                       [('electronic', (23, ('dict', [('units', 'deg')]))), ('mechanic', (30, ('dict', [('units', 'deg')])))])],
                                                     ('dict', []))),
                                                   ('slant_range_to_first_data_sample', ('Variable', ['rows'], [11, 24, 37], ('dict', [('units', 'm')]))),
                                                   ('data_record_window_position', ('Variable', ['rows'], [18, 31, 44], ('dict', [('units', 'ns')]))),
                                                   ('platform_latitude', ('Variable', ['rows'], [3.9e-05, 5.2e-05, 6.5e-05], ('dict', [('units', 'deg')]))),
                                                   ('platform_longitude', ('Variable', ['rows'], [4.6e-05, 5.9e-05, 7.2e-05], ('dict', [('units', 'deg')]))),
                                                   ('platform_altitude', ('Variable', ['rows'], [53, 66, 79], ('dict', [('units', 'deg')]))),
                                                   ('platform_ground_speed', ('Variable', ['rows'], [60, 73, 86], ('dict', [('units', 'cm/s')]))),
                                                   ('platform_velocity',
                                                    ('Variable', ['rows'],
                                                     [('dict',
                                                       [('x', (67, ('dict', [('units', 'cm/s')]))), ('y', (74, ('dict', [('units', 'cm/s')]))),
                                                        ('z', (81, ('dict', [('units', 'cm/s')])))]),
                                                      ('dict',
                                                       [('x', (80, ('dict', [('units', 'cm/s')]))), ('y', (87, ('dict', [('units', 'cm/s')]))),
                                                        ('z', (94, ('dict', [('units', 'cm/s')])))]),
                                                      ('dict',
                                                       [('x', (93, ('dict', [('units', 'cm/s')]))), ('y', (3, ('dict', [('units', 'cm/s')]))),
                                                        ('z', (10, ('dict', [('units', 'cm/s')])))])],
                                                     ('dict', []))),
                                                   ('platform_acceleration',
                                                    ('Variable', ['rows'],
                                                     [('dict',
                                                       [('x', (88, ('dict', [('units', 'cm/s^2')]))), ('y', (95, ('dict', [('units', 'cm/s^2')]))),
                                                        ('z', (5, ('dict', [('units', 'cm/s^2')])))]),
                                                      ('dict',
                                                       [('x', (4, ('dict', [('units', 'cm/s^2')]))), ('y', (11, ('dict', [('units', 'cm/s^2')]))),
                                                        ('z', (18, ('dict', [('units', 'cm/s^2')])))]),
                                                      ('dict',
                                                       [('x', (17, ('dict', [('units', 'cm/s^2')]))), ('y', (24, ('dict', [('units', 'cm/s^2')]))),
                                                        ('z', (31, ('dict', [('units', 'cm/s^2')])))])],
                                                     ('dict', []))),
                                                   ('platform_track_angle',
                                                    ('Variable', ['rows'], [1.2e-05, 2.4999999999999998e-05, 3.7999999999999995e-05],
                                                     ('dict', [('units', 'deg')]))),
                                                   ('platform_true_track_angle',
                                                    ('Variable', ['rows'], [1.8999999999999998e-05, 3.2e-05, 4.4999999999999996e-05],
                                                     ('dict', [('units', 'deg')]))),
                                                   ('platform_attitude',
                                                    ('Variable', ['rows'],
                                                     [('dict',
                                                       [('pitch', (2.6e-05, ('dict', [('units', 'deg')]))),
                                                        ('roll', (3.2999999999999996e-05, ('dict', [('units', 'deg')]))),
                                                        ('yaw', (3.9999999999999996e-05, ('dict', [('units', 'deg')])))]),
                                                      ('dict',
                                                       [('pitch', (3.9e-05, ('dict', [('units', 'deg')]))), ('roll', (4.6e-05, ('dict', [('units', 'deg')]))),
                                                        ('yaw', (5.3e-05, ('dict', [('units', 'deg')])))]),
                                                      ('dict',
                                                       [('pitch', (5.2e-05, ('dict', [('units', 'deg')]))), ('roll', (5.9e-05, ('dict', [('units', 'deg')]))),
                                                        ('yaw', (6.599999999999999e-05, ('dict', [('units', 'deg')])))])],
                                                     ('dict', []))),
                                                   ('latitude_of_first_pixel',
                                                    ('Variable', ['rows'], [4.7e-05, 5.9999999999999995e-05, 7.3e-05], ('dict', [('units', 'deg')]))),
                                                   ('latitude_of_center_pixel',
                                                    ('Variable', ['rows'], [5.4e-05, 6.7e-05, 7.999999999999999e-05], ('dict', [('units', 'deg')]))),
                                                   ('latitude_of_last_pixel',
                                                    ('Variable', ['rows'], [6.1e-05, 7.4e-05, 8.7e-05], ('dict', [('units', 'deg')]))),
                                                   ('longitude_of_first_pixel',
                                                    ('Variable', ['rows'], [6.8e-05, 8.099999999999999e-05, 9.4e-05], ('dict', [('units', 'deg')]))),
                                                   ('longitude_of_center_pixel',
                                                    ('Variable', ['rows'], [7.5e-05, 8.8e-05, 4e-06], ('dict', [('units', 'deg')]))),
                                                   ('longitude_of_last_pixel',
                                                    ('Variable', ['rows'], [8.2e-05, 9.499999999999999e-05, 1.1e-05], ('dict', [('units', 'deg')]))),
                                                   ('burst_number', ('Variable', ['rows'], [89, 5, 18], ('dict', []))),
                                                   ('line_number_in_this_burst', ('Variable', ['rows'], [96, 12, 25], ('dict', [])))]),
                                                 ('dict',
                                                  [('sar_image_data_record_index', 1), ('sensor_parameters_update_flag', 58),
                                                   ('sar_channel_id', ('subclass', 'EnumInteger', 0)), ('sar_channel_code', ('subclass', 'EnumInteger', 86)),
                                                   ('transmitted_pulse_polarization', 'horizontal'),
                                                   ('received_pulse_polarization', ('subclass', 'EnumInteger', 93)), ('scan_id', 10),
                                                   ('onboard_range_compressed_flag', False), ('chirp_type_designator', ('subclass', 'EnumInteger', 17)),
                                                   ('platform_position_parameters_update_flag', ('subclass', 'EnumInteger', 32))]))),
                                    'arguments_unchanged': True},
 'transform_metadata/11/IU2': {'outcome': ('returned',
                                           (('Group', '/', None,
                                             ('dict',
                                              [('rows', ('Variable', ['rows'], [1, 2, 3], ('dict', []))),
                                               ('sensor_acquisition_date',
                                                ('Variable', ['rows'],
                                                 ('ndarray', 'datetime64[ns]', (3,),
                                                  ['2020-02-18T00:20:34.578000000', '2020-03-26T00:41:09.145000000', '2020-05-02T01:01:43.712000000']),
                                                 ('dict', []))),
                                               ('prf', ('Variable', ['rows'], [4, 17, 30], ('dict', [('units', 'mHz')]))),
                                               ('slant_range_to_first_pixel', ('Variable', ['rows'], [18, 31, 44], ('dict', [('units', 'm')]))),
                                               ('slant_range_to_mid_pixel', ('Variable', ['rows'], [25, 38, 51], ('dict', [('units', 'm')]))),
                                               ('slant_range_to_last_pixel', ('Variable', ['rows'], [32, 45, 58], ('dict', [('units', 'm')]))),
                                               ('doppler_centroid_value_at_first_pixel',
                                                ('Variable', ['rows'], [0.039, 0.052000000000000005, 0.065], ('dict', [('units', 'Hz')]))),
                                               ('doppler_centroid_value_at_mid_pixel',
                                                ('Variable', ['rows'], [0.046, 0.059000000000000004, 0.07200000000000001], ('dict', [('units', 'Hz')]))),
                                               ('doppler_centroid_value_at_last_pixel',
                                                ('Variable', ['rows'], [0.053, 0.066, 0.079], ('dict', [('units', 'Hz')]))),
                                               ('azimuth_fm_rate_of_first_pixel', ('Variable', ['rows'], [60, 73, 86], ('dict', [('units', 'Hz/ms')]))),
                                               ('azimuth_fm_rate_of_mid_pixel', ('Variable', ['rows'], [67, 80, 93], ('dict', [('units', 'Hz/ms')]))),
                                               ('azimuth_fm_rate_of_last_pixel', ('Variable', ['rows'], [74, 87, 3], ('dict', [('units', 'Hz/ms')]))),
                                               ('look_angle_of_nadir',
                                                ('Variable', ['rows'], [8.099999999999999e-05, 9.4e-05, 9.999999999999999e-06], ('dict', [('units', 'deg')]))),
                                               ('azimuth_squint_angle', ('Variable', ['rows'], [8.8e-05, 4e-06, 1.7e-05], ('dict', [('units', 'deg')]))),
                                               ('latitude_of_first_pixel',
                                                ('Variable', ['rows'], [3.9999999999999996e-05, 5.3e-05, 6.599999999999999e-05], ('dict', [('units', 'deg')]))),
                                               ('latitude_of_center_pixel',
                                                ('Variable', ['rows'], [4.7e-05, 5.9999999999999995e-05, 7.3e-05], ('dict', [('units', 'deg')]))),
                                               ('latitude_of_last_pixel',
                                                ('Variable', ['rows'], [5.4e-05, 6.7e-05, 7.999999999999999e-05], ('dict', [('units', 'deg')]))),
                                               ('longitude_of_first_pixel', ('Variable', ['rows'], [6.1e-05, 7.4e-05, 8.7e-05], ('dict', [('units', 'deg')]))),
                                               ('longitude_of_center_pixel',
                                                ('Variable', ['rows'], [6.8e-05, 8.099999999999999e-05, 9.4e-05], ('dict', [('units', 'deg')]))),
                                               ('longitude_of_last_pixel', ('Variable', ['rows'], [7.5e-05, 8.8e-05, 4e-06], ('dict', [('units', 'deg')]))),
                                               ('northing_of_first_pixel', ('Variable', ['rows'], [82, 95, 11], ('dict', [('units', 'm')]))),
                                               ('northing_of_last_pixel', ('Variable', ['rows'], [96, 12, 25], ('dict', [('units', 'm')]))),
                                               ('easting_of_first_pixel', ('Variable', ['rows'], [6, 19, 32], ('dict', [('units', 'm')]))),
                                               ('easting_of_last_pixel', ('Variable', ['rows'], [20, 33, 46], ('dict', [('units', 'm')]))),
                                               ('line_heading',
                                                ('Variable', ['rows'], [2.7e-05, 3.9999999999999996e-05, 5.3e-05], ('dict', [('units', 'deg')])))]),
                                             ('dict',
                                              [('sar_image_data_record_index', 1), ('sensor_parameters_update_flag', 59),
                                               ('sar_channel_id', ('subclass', 'EnumInteger', 0)), ('sar_channel_code', ('subclass', 'EnumInteger', 87)),
                                               ('transmitted_pulse_polarization', 'horizontal'),
                                               ('received_pulse_polarization', ('subclass', 'EnumInteger', 94)), ('scan_id', 11),
                                               ('geographic_reference_parameter_update_flag', 33), ('interleaving_id', 'BSQ'), ('valid_range', [0, 65535]),
                                               ('coordinates',
                                                ['rows', 'sensor_acquisition_date', 'prf', 'slant_range_to_first_pixel', 'slant_range_to_mid_pixel',
                                                 'slant_range_to_last_pixel', 'doppler_centroid_value_at_first_pixel', 'doppler_centroid_value_at_mid_pixel',
                                                 'doppler_centroid_value_at_last_pixel', 'azimuth_fm_rate_of_first_pixel', 'azimuth_fm_rate_of_mid_pixel',
                                                 'azimuth_fm_rate_of_last_pixel', 'look_angle_of_nadir', 'azimuth_squint_angle', 'latitude_of_first_pixel',
                                                 'latitude_of_center_pixel', 'latitude_of_last_pixel', 'longitude_of_first_pixel', 'longitude_of_center_pixel',
                                                 'longitude_of_last_pixel', 'northing_of_first_pixel', 'northing_of_last_pixel', 'easting_of_first_pixel',
                                                 'easting_of_last_pixel', 'line_heading'])])),
                                            ('dict',
                                             [('type_code', 'IU2'), ('shape', (3, 2)), ('dtype', 'uint16'),
                                              ('byte_ranges', [(912, 916), (1108, 1112), (1304, 1308)])]))),
                               'arguments_unchanged': True},
 'transform_line_metadata/11/IU2': {'outcome': ('returned',
                                                ('Group', '/', None,
                                                 ('dict',
                                                  [('rows', ('Variable', ['rows'], [1, 2, 3], ('dict', []))),
                                                   ('sensor_acquisition_date',
                                                    ('Variable', ['rows'],
                                                     ('ndarray', 'datetime64[ns]', (3,),
                                                      ['2020-02-18T00:20:34.578000000', '2020-03-26T00:41:09.145000000', '2020-05-02T01:01:43.712000000']),
                                                     ('dict', []))),
                                                   ('prf', ('Variable', ['rows'], [4, 17, 30], ('dict', [('units', 'mHz')]))),
                                                   ('slant_range_to_first_pixel', ('Variable', ['rows'], [18, 31, 44], ('dict', [('units', 'm')]))),
                                                   ('slant_range_to_mid_pixel', ('Variable', ['rows'], [25, 38, 51], ('dict', [('units', 'm')]))),
                                                   ('slant_range_to_last_pixel', ('Variable', ['rows'], [32, 45, 58], ('dict', [('units', 'm')]))),
                                                   ('doppler_centroid_value_at_first_pixel',
                                                    ('Variable', ['rows'], [0.039, 0.052000000000000005, 0.065], ('dict', [('units', 'Hz')]))),
                                                   ('doppler_centroid_value_at_mid_pixel',
                                                    ('Variable', ['rows'], [0.046, 0.059000000000000004, 0.07200000000000001], ('dict', [('units', 'Hz')]))),
                                                   ('doppler_centroid_value_at_last_pixel',
                                                    ('Variable', ['rows'], [0.053, 0.066, 0.079], ('dict', [('units', 'Hz')]))),
                                                   ('azimuth_fm_rate_of_first_pixel', ('Variable', ['rows'], [60, 73, 86], ('dict', [('units', 'Hz/ms')]))),
                                                   ('azimuth_fm_rate_of_mid_pixel', ('Variable', ['rows'], [67, 80, 93], ('dict', [('units', 'Hz/ms')]))),
                                                   ('azimuth_fm_rate_of_last_pixel', ('Variable', ['rows'], [74, 87, 3], ('dict', [('units', 'Hz/ms')]))),
                                                   ('look_angle_of_nadir',
                                                    ('Variable', ['rows'], [8.099999999999999e-05, 9.4e-05, 9.999999999999999e-06],
                                                     ('dict', [('units', 'deg')]))),
                                                   ('azimuth_squint_angle', ('Variable', ['rows'], [8.8e-05, 4e-06, 1.7e-05], ('dict', [('units', 'deg')]))),
                                                   ('latitude_of_first_pixel',
                                                    ('Variable', ['rows'], [3.9999999999999996e-05, 5.3e-05, 6.599999999999999e-05],
                                                     ('dict', [('units', 'deg')]))),
                                                   ('latitude_of_center_pixel',
                                                    ('Variable', ['rows'], [4.7e-05, 5.9999999999999995e-05, 7.3e-05], ('dict', [('units', 'deg')]))),
                                                   ('latitude_of_last_pixel',
                                                    ('Variable', ['rows'], [5.4e-05, 6.7e-05, 7.999999999999999e-05], ('dict', [('units', 'deg')]))),
                                                   ('longitude_of_first_pixel',
                                                    ('Variable', ['rows'], [6.1e-05, 7.4e-05, 8.7e-05], ('dict', [('units', 'deg')]))),
                                                   ('longitude_of_center_pixel',
                                                    ('Variable', ['rows'], [6.8e-05, 8.099999999999999e-05, 9.4e-05], ('dict', [('units', 'deg')]))),
                                                   ('longitude_of_last_pixel', ('Variable', ['rows'], [7.5e-05, 8.8e-05, 4e-06], ('dict', [('units', 'deg')]))),
                                                   ('northing_of_first_pixel', ('Variable', ['rows'], [82, 95, 11], ('dict', [('units', 'm')]))),
                                                   ('northing_of_last_pixel', ('Variable', ['rows'], [96, 12, 25], ('dict', [('units', 'm')]))),
                                                   ('easting_of_first_pixel', ('Variable', ['rows'], [6, 19, 32], ('dict', [('units', 'm')]))),
                                                   ('easting_of_last_pixel', ('Variable', ['rows'], [20, 33, 46], ('dict', [('units', 'm')]))),
                                                   ('line_heading',
                                                    ('Variable', ['rows'], [2.7e-05, 3.9999999999999996e-05, 5.3e-05], ('dict', [('units', 'deg')])))]),
                                                 ('dict',
                                                  [('sar_image_data_record_index', 1), ('sensor_parameters_update_flag', 59),
                                                   ('sar_channel_id', ('subclass', 'EnumInteger', 0)), ('sar_channel_code', ('subclass', 'EnumInteger', 87)),
                                                   ('transmitted_pulse_polarization', 'horizontal'),
                                                   ('received_pulse_polarization', ('subclass', 'EnumInteger', 94)), ('scan_id', 11),
                                                   ('geographic_reference_parameter_update_flag', 33)]))),
                                    'arguments_unchanged': True},
 'transform_metadata/10/IU2': {'outcome': ('returned',
                                           (('Group', '/', None,
                                             ('dict',
                                              [('rows', ('Variable', ['rows'], [1, 2, 3], ('dict', []))),
                                               ('sensor_acquisition_date',
                                                ('Variable', ['rows'],
                                                 ('ndarray', 'datetime64[ns]', (3,),
                                                  ['2020-02-17T00:20:34.577000000', '2020-03-25T00:41:09.144000000', '2020-05-01T01:01:43.711000000']),
                                                 ('dict', []))),
                                               ('prf', ('Variable', ['rows'], [3, 16, 29], ('dict', [('units', 'mHz')]))),
                                               ('chirp_length', ('Variable', ['rows'], [24, 37, 50], ('dict', [('units', 'ns')]))),
                                               ('chirp_constant_coefficient', ('Variable', ['rows'], [31, 44, 57], ('dict', [('units', 'Hz')]))),
                                               ('chirp_linear_coefficient', ('Variable', ['rows'], [38, 51, 64], ('dict', [('units', 'Hz/µs')]))),
                                               ('chirp_quadratic_coefficient', ('Variable', ['rows'], [45, 58, 71], ('dict', [('units', 'Hz/µs^2')]))),
                                               ('sensor_acquisition_date_microseconds',
                                                ('Variable', ['rows'],
                                                 ('ndarray', 'datetime64[ns]', (3,),
                                                  ['2020-02-19T14:02:18.299451000', '2020-03-28T05:32:52.874312000', '2020-05-04T21:03:27.449173000']),
                                                 ('dict', []))),
                                               ('receiver_gain', ('Variable', ['rows'], [66, 79, 92], ('dict', [('units', 'dB')]))),
                                               ('invalid_line_flag', ('Variable', ['rows'], [True, True, True], ('dict', []))),
                                               ('elevation_angle_at_nadir_of_antenna',
                                                ('Variable', ['rows'],
                                                 [('dict',
                                                   [('electronic', (80, ('dict', [('units', 'deg')]))), ('mechanic', (87, ('dict', [('units', 'deg')])))]),
                                                  ('dict',
                                                   [('electronic', (93, ('dict', [('units', 'deg')]))), ('mechanic', (3, ('dict', [('units', 'deg')])))]),
                                                  ('dict',
                                                   [('electronic', (9, ('dict', [('units', 'deg')]))), ('mechanic', (16, ('dict', [('units', 'deg')])))])],
                                                 ('dict', []))),
                                               ('antenna_squint_angle',
                                                ('Variable', ['rows'],
                                                 [('dict',
                                                   [('electronic', (94, ('dict', [('units', 'deg')]))), ('mechanic', (4, ('dict', [('units', 'deg')])))]),
                                                  ('dict',
                                                   [('electronic', (10, ('dict', [('units', 'deg')]))), ('mechanic', (17, ('dict', [('units', 'deg')])))]),
                                                  ('dict',
                                                   [('electronic', (23, ('dict', [('units', 'deg')]))), ('mechanic', (30, ('dict', [('units', 'deg')])))])],
                                                 ('dict', []))),
                                               ('slant_range_to_first_data_sample', ('Variable', ['rows'], [11, 24, 37], ('dict', [('units', 'm')]))),
                                               ('data_record_window_position', ('Variable', ['rows'], [18, 31, 44], ('dict', [('units', 'ns')]))),
                                               ('platform_latitude', ('Variable', ['rows'], [3.9e-05, 5.2e-05, 6.5e-05], ('dict', [('units', 'deg')]))),
                                               ('platform_longitude', ('Variable', ['rows'], [4.6e-05, 5.9e-05, 7.2e-05], ('dict', [('units', 'deg')]))),
                                               ('platform_altitude', ('Variable', ['rows'], [53, 66, 79], ('dict', [('units', 'deg')]))),
                                               ('platform_ground_speed', ('Variable', ['rows'], [60, 73, 86], ('dict', [('units', 'cm/s')]))),
                                               ('platform_velocity',
                                                ('Variable', ['rows'],
                                                 [('dict',
                                                   [('x', (67, ('dict', [('units', 'cm/s')]))), ('y', (74, ('dict', [('units', 'cm/s')]))),
                                                    ('z', (81, ('dict', [('units', 'cm/s')])))]),
                                                  ('dict',
                                                   [('x', (80, ('dict', [('units', 'cm/s')]))), ('y', (87, ('dict', [('units', 'cm/s')]))),
                                                    ('z', (94, ('dict', [('units', 'cm/s')])))]),
                                                  ('dict',
                                                   [('x', (93, ('dict', [('units', 'cm/s')]))), ('y', (3, ('dict', [('units', 'cm/s')]))),
                                                    ('z', (10, ('dict', [('units', 'cm/s')])))])],
                                                 ('dict', []))),
                                               ('platform_acceleration',
                                                ('Variable', ['rows'],
                                                 [('dict',
                                                   [('x', (88, ('dict', [('units', 'cm/s^2')]))), ('y', (95, ('dict', [('units', 'cm/s^2')]))),
                                                    ('z', (5, ('dict', [('units', 'cm/s^2')])))]),
                                                  ('dict',
                                                   [('x', (4, ('dict', [('units', 'cm/s^2')]))), ('y', (11, ('dict', [('units', 'cm/s^2')]))),
                                                    ('z', (18, ('dict', [('units', 'cm/s^2')])))]),
                                                  ('dict',
                                                   [('x', (17, ('dict', [('units', 'cm/s^2')]))), ('y', (24, ('dict', [('units', 'cm/s^2')]))),
                                                    ('z', (31, ('dict', [('units', 'cm/s^2')])))])],
                                                 ('dict', []))),
                                               ('platform_track_angle',
                                                ('Variable', ['rows'], [1.2e-05, 2.4999999999999998e-05, 3.7999999999999995e-05],
                                                 ('dict', [('units', 'deg')]))),
                                               ('platform_true_track_angle',
                                                ('Variable', ['rows'], [1.8999999999999998e-05, 3.2e-05, 4.4999999999999996e-05],
                                                 ('dict', [('units', 'deg')]))),
                                               ('platform_attitude',
                                                ('Variable', ['rows'],
                                                 [('dict',
                                                   [('pitch', (2.6e-05, ('dict', [('units', 'deg')]))),
                                                    ('roll', (3.2999999999999996e-05, ('dict', [('units', 'deg')]))),
                                                    ('yaw', (3.9999999999999996e-05, ('dict', [('units', 'deg')])))]),
                                                  ('dict',
                                                   [('pitch', (3.9e-05, ('dict', [('units', 'deg')]))), ('roll', (4.6e-05, ('dict', [('units', 'deg')]))),
                                                    ('yaw', (5.3e-05, ('dict', [('units', 'deg')])))]),
                                                  ('dict',
                                                   [('pitch', (5.2e-05, ('dict', [('units', 'deg')]))), ('roll', (5.9e-05, ('dict', [('units', 'deg')]))),
                                                    ('yaw', (6.599999999999999e-05, ('dict', [('units', 'deg')])))])],
                                                 ('dict', []))),
                                               ('latitude_of_first_pixel',
                                                ('Variable', ['rows'], [4.7e-05, 5.9999999999999995e-05, 7.3e-05], ('dict', [('units', 'deg')]))),
                                               ('latitude_of_center_pixel',
                                                ('Variable', ['rows'], [5.4e-05, 6.7e-05, 7.999999999999999e-05], ('dict', [('units', 'deg')]))),
                                               ('latitude_of_last_pixel', ('Variable', ['rows'], [6.1e-05, 7.4e-05, 8.7e-05], ('dict', [('units', 'deg')]))),
                                               ('longitude_of_first_pixel',
                                                ('Variable', ['rows'], [6.8e-05, 8.099999999999999e-05, 9.4e-05], ('dict', [('units', 'deg')]))),
                                               ('longitude_of_center_pixel', ('Variable', ['rows'], [7.5e-05, 8.8e-05, 4e-06], ('dict', [('units', 'deg')]))),
                                               ('longitude_of_last_pixel',
                                                ('Variable', ['rows'], [8.2e-05, 9.499999999999999e-05, 1.1e-05], ('dict', [('units', 'deg')]))),
                                               ('burst_number', ('Variable', ['rows'], [89, 5, 18], ('dict', []))),
                                               ('line_number_in_this_burst', ('Variable', ['rows'], [96, 12, 25], ('dict', [])))]),
                                             ('dict',
                                              [('sar_image_data_record_index', 1), ('sensor_parameters_update_flag', 58),
                                               ('sar_channel_id', ('subclass', 'EnumInteger', 0)), ('sar_channel_code', ('subclass', 'EnumInteger', 86)),
                                               ('transmitted_pulse_polarization', 'horizontal'),
                                               ('received_pulse_polarization', ('subclass', 'EnumInteger', 93)), ('scan_id', 10),
                                               ('onboard_range_compressed_flag', False), ('chirp_type_designator', ('subclass', 'EnumInteger', 17)),
                                               ('platform_position_parameters_update_flag', ('subclass', 'EnumInteger', 32)), ('interleaving_id', 'BSQ'),
                                               ('number_of_burst_data', 3), ('number_of_lines_per_burst', 1),
                                               ('number_of_overlap_lines_with_adjacent_bursts', 0),
                                               ('coordinates',
                                                ['rows', 'sensor_acquisition_date', 'prf', 'chirp_length', 'chirp_constant_coefficient',
                                                 'chirp_linear_coefficient', 'chirp_quadratic_coefficient', 'sensor_acquisition_date_microseconds',
                                                 'receiver_gain', 'invalid_line_flag', 'elevation_angle_at_nadir_of_antenna', 'antenna_squint_angle',
                                                 'slant_range_to_first_data_sample', 'data_record_window_position', 'platform_latitude', 'platform_longitude',
                                                 'platform_altitude', 'platform_ground_speed', 'platform_velocity', 'platform_acceleration',
                                                 'platform_track_angle', 'platform_true_track_angle', 'platform_attitude', 'latitude_of_first_pixel',
                                                 'latitude_of_center_pixel', 'latitude_of_last_pixel', 'longitude_of_first_pixel', 'longitude_of_center_pixel',
                                                 'longitude_of_last_pixel', 'burst_number', 'line_number_in_this_burst'])])),
                                            ('dict',
                                             [('type_code', 'IU2'), ('shape', (3, 2)), ('dtype', 'uint16'),
                                              ('byte_ranges', [(1264, 1268), (1812, 1816), (2360, 2364)])]))),
                               'arguments_unchanged': True},
 'transform_line_metadata/10/IU2': {'outcome': ('returned',
                                                ('Group', '/', None,
                                                 ('dict',
                                                  [('rows', ('Variable', ['rows'], [1, 2, 3], ('dict', []))),
                                                   ('sensor_acquisition_date',
                                                    ('Variable', ['rows'],
                                                     ('ndarray', 'datetime64[ns]', (3,),
                                                      ['2020-02-17T00:20:34.577000000', '2020-03-25T00:41:09.144000000', '2020-05-01T01:01:43.711000000']),
                                                     ('dict', []))),
                                                   ('prf', ('Variable', ['rows'], [3, 16, 29], ('dict', [('units', 'mHz')]))),
                                                   ('chirp_length', ('Variable', ['rows'], [24, 37, 50], ('dict', [('units', 'ns')]))),
                                                   ('chirp_constant_coefficient', ('Variable', ['rows'], [31, 44, 57], ('dict', [('units', 'Hz')]))),
                                                   ('chirp_linear_coefficient', ('Variable', ['rows'], [38, 51, 64], ('dict', [('units', 'Hz/µs')]))),
                                                   ('chirp_quadratic_coefficient', ('Variable', ['rows'], [45, 58, 71], ('dict', [('units', 'Hz/µs^2')]))),
                                                   ('sensor_acquisition_date_microseconds',
                                                    ('Variable', ['rows'],
                                                     ('ndarray', 'datetime64[ns]', (3,),
                                                      ['2020-02-19T14:02:18.299451000', '2020-03-28T05:32:52.874312000', '2020-05-04T21:03:27.449173000']),
                                                     ('dict', []))),
                                                   ('receiver_gain', ('Variable', ['rows'], [66, 79, 92], ('dict', [('units', 'dB')]))),
                                                   ('invalid_line_flag', ('Variable', ['rows'], [True, True, True], ('dict', []))),
                                                   ('elevation_angle_at_nadir_of_antenna',
                                                    ('Variable', ['rows'],
                                                     [('dict',
                                                       [('electronic', (80, ('dict', [('units', 'deg')]))), ('mechanic', (87, ('dict', [('units', 'deg')])))]),
                                                      ('dict',
                                                       [('electronic', (93, ('dict', [('units', 'deg')]))), ('mechanic', (3, ('dict', [('units', 'deg')])))]),
                                                      ('dict',
                                                       [('electronic', (9, ('dict', [('units', 'deg')]))), ('mechanic', (16, ('dict', [('units', 'deg')])))])],
                                                     ('dict', []))),
                                                   ('antenna_squint_angle',
                                                    ('Variable', ['rows'],
                                                     [('dict',
                                                       [('electronic', (94, ('dict', [('units', 'deg')]))), ('mechanic', (4, ('dict', [('units', 'deg')])))]),
                                                      ('dict',
                                                       [('electronic', (10, ('dict', [('units', 'deg')]))), ('mechanic', (17, ('dict', [('units', 'deg')])))]),
                                                      ('dict',
                                                       [('electronic', (23, ('dict', [('units', 'deg')]))), ('mechanic', (30, ('dict', [('units', 'deg')])))])],
                                                     ('dict', []))),
                                                   ('slant_range_to_first_data_sample', ('Variable', ['rows'], [11, 24, 37], ('dict', [('units', 'm')]))),
                                                   ('data_record_window_position', ('Variable', ['rows'], [18, 31, 44], ('dict', [('units', 'ns')]))),
                                                   ('platform_latitude', ('Variable', ['rows'], [3.9e-05, 5.2e-05, 6.5e-05], ('dict', [('units', 'deg')]))),
                                                   ('platform_longitude', ('Variable', ['rows'], [4.6e-05, 5.9e-05, 7.2e-05], ('dict', [('units', 'deg')]))),
                                                   ('platform_altitude', ('Variable', ['rows'], [53, 66, 79], ('dict', [('units', 'deg')]))),
                                                   ('platform_ground_speed', ('Variable', ['rows'], [60, 73, 86], ('dict', [('units', 'cm/s')]))),
                                                   ('platform_velocity',
                                                    ('Variable', ['rows'],
                                                     [('dict',
                                                       [('x', (67, ('dict', [('units', 'cm/s')]))), ('y', (74, ('dict', [('units', 'cm/s')]))),
                                                        ('z', (81, ('dict', [('units', 'cm/s')])))]),
                                                      ('dict',
                                                       [('x', (80, ('dict', [('units', 'cm/s')]))), ('y', (87, ('dict', [('units', 'cm/s')]))),
                                                        ('z', (94, ('dict', [('units', 'cm/s')])))]),
                                                      ('dict',
                                                       [('x', (93, ('dict', [('units', 'cm/s')]))), ('y', (3, ('dict', [('units', 'cm/s')]))),
                                                        ('z', (10, ('dict', [('units', 'cm/s')])))])],
                                                     ('dict', []))),
                                                   ('platform_acceleration',
                                                    ('Variable', ['rows'],
                                                     [('dict',
                                                       [('x', (88, ('dict', [('units', 'cm/s^2')]))), ('y', (95, ('dict', [('units', 'cm/s^2')]))),
                                                        ('z', (5, ('dict', [('units', 'cm/s^2')])))]),
                                                      ('dict',
                                                       [('x', (4, ('dict', [('units', 'cm/s^2')]))), ('y', (11, ('dict', [('units', 'cm/s^2')]))),
                                                        ('z', (18, ('dict', [('units', 'cm/s^2')])))]),
                                                      ('dict',
                                                       [('x', (17, ('dict', [('units', 'cm/s^2')]))), ('y', (24, ('dict', [('units', 'cm/s^2')]))),
                                                        ('z', (31, ('dict', [('units', 'cm/s^2')])))])],
                                                     ('dict', []))),
                                                   ('platform_track_angle',
                                                    ('Variable', ['rows'], [1.2e-05, 2.4999999999999998e-05, 3.7999999999999995e-05],
                                                     ('dict', [('units', 'deg')]))),
                                                   ('platform_true_track_angle',
                                                    ('Variable', ['rows'], [1.8999999999999998e-05, 3.2e-05, 4.4999999999999996e-05],
                                                     ('dict', [('units', 'deg')]))),
                                                   ('platform_attitude',
                                                    ('Variable', ['rows'],
                                                     [('dict',
                                                       [('pitch', (2.6e-05, ('dict', [('units', 'deg')]))),
                                                        ('roll', (3.2999999999999996e-05, ('dict', [('units', 'deg')]))),
                                                        ('yaw', (3.9999999999999996e-05, ('dict', [('units', 'deg')])))]),
                                                      ('dict',
                                                       [('pitch', (3.9e-05, ('dict', [('units', 'deg')]))), ('roll', (4.6e-05, ('dict', [('units', 'deg')]))),
                                                        ('yaw', (5.3e-05, ('dict', [('units', 'deg')])))]),
                                                      ('dict',
                                                       [('pitch', (5.2e-05, ('dict', [('units', 'deg')]))), ('roll', (5.9e-05, ('dict', [('units', 'deg')]))),
                                                        ('yaw', (6.599999999999999e-05, ('dict', [('units', 'deg')])))])],
                                                     ('dict', []))),
                                                   ('latitude_of_first_pixel',
                                                    ('Variable', ['rows'], [4.7e-05, 5.9999999999999995e-05, 7.3e-05], ('dict', [('units', 'deg')]))),
                                                   ('latitude_of_center_pixel',
                                                    ('Variable', ['rows'], [5.4e-05, 6.7e-05, 7.999999999999999e-05], ('dict', [('units', 'deg')]))),
                                                   ('latitude_of_last_pixel',
                                                    ('Variable', ['rows'], [6.1e-05, 7.4e-05, 8.7e-05], ('dict', [('units', 'deg')]))),
                                                   ('longitude_of_first_pixel',
                                                    ('Variable', ['rows'], [6.8e-05, 8.099999999999999e-05, 9.4e-05], ('dict', [('units', 'deg')]))),
                                                   ('longitude_of_center_pixel',
                                                    ('Variable', ['rows'], [7.5e-05, 8.8e-05, 4e-06], ('dict', [('units', 'deg')]))),
                                                   ('longitude_of_last_pixel',
                                                    ('Variable', ['rows'], [8.2e-05, 9.499999999999999e-05, 1.1e-05], ('dict', [('units', 'deg')]))),
                                                   ('burst_number', ('Variable', ['rows'], [89, 5, 18], ('dict', []))),
                                                   ('line_number_in_this_burst', ('Variable', ['rows'], [96, 12, 25], ('dict', [])))]),
                                                 ('dict',
                                                  [('sar_image_data_record_index', 1), ('sensor_parameters_update_flag', 58),
                                                   ('sar_channel_id', ('subclass', 'EnumInteger', 0)), ('sar_channel_code', ('subclass', 'EnumInteger', 86)),
                                                   ('transmitted_pulse_polarization', 'horizontal'),
                                                   ('received_pulse_polarization', ('subclass', 'EnumInteger', 93)), ('scan_id', 10),
                                                   ('onboard_range_compressed_flag', False), ('chirp_type_designator', ('subclass', 'EnumInteger', 17)),
                                                   ('platform_position_parameters_update_flag', ('subclass', 'EnumInteger', 32))]))),
                                    'arguments_unchanged': True},
 'module/names': ['apply_overrides', 'deduplicate_attrs', 'dtypes', 'extract_attrs', 'extract_format_type', 'extract_shape', 'transform_line_metadata',
                  'transform_metadata'],
 'module/signatures': ['(header)', '(dtype_overrides, mapping)', '(known, mapping)']}
# === END RECORDED ===

if __name__ == "__main__":
    sys.exit(main())
