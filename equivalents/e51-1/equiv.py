"""equivalence check for refactoring 1: ``ceos_alos2.sar_image.io.read_metadata``

Runs ``read_metadata`` on synthetic image files (real record layouts and dummy ones
installed the same way as the test-suite does) and compares results, exceptions and
the exact sequence of requests made on the file object with a recording taken from
the unchanged code.

usage: PYTHONPATH=<worktree> python equiv.py      (or: pytest equiv.py)
"""
import hashlib
import io as _io

from construct import Int8ub, Seek, Struct, Tell, this

from ceos_alos2.sar_image import io as sar_io

# --------------------------------------------------------------------------
# generic harness: canonical description of results, recording, comparison
# --------------------------------------------------------------------------
import datetime as _dt
import math as _math
import os
import pprint
import sys
import traceback

import numpy as np

from ceos_alos2.array import Array
from ceos_alos2.hierarchy import Group, Variable

_PLAIN = (int, bool, str, bytes, type(None))


def describe(obj):
    """convert a result to nested literals, keeping types and orders visible"""
    t = type(obj)
    if t in _PLAIN:
        return obj
    if t is float:
        if _math.isfinite(obj):
            return obj
        return ("float", repr(obj))
    if t is complex:
        return ("complex", repr(obj))
    if t is tuple:
        return tuple(describe(v) for v in obj)
    if t is list:
        return [describe(v) for v in obj]
    if t is dict:
        return ("dict", [(describe(k), describe(v)) for k, v in obj.items()])
    if t in (set, frozenset):
        return (t.__name__, sorted((describe(v) for v in obj), key=repr))
    if t is _dt.datetime:
        return ("datetime", obj.isoformat())
    if isinstance(obj, np.ndarray):
        return ("ndarray", str(obj.dtype), obj.shape, [str(v) for v in obj.reshape(-1)])
    if isinstance(obj, np.generic):
        return ("npscalar", str(obj.dtype), str(obj))
    if isinstance(obj, np.dtype):
        return ("npdtype", str(obj))
    if t is Array:
        fs = obj.fs
        return (
            "Array",
            ("fs", type(fs).__name__, getattr(fs, "path", None), type(getattr(fs, "fs", None)).__name__),
            ("url", obj.url),
            ("byte_ranges", describe(obj.byte_ranges)),
            ("shape", describe(obj.shape)),
            ("dtype", describe(obj.dtype)),
            ("type_code", obj.type_code),
            ("records_per_chunk", describe(obj.records_per_chunk)),
            ("chunk_offsets", describe(obj.chunk_offsets)),
        )
    if t is Variable:
        return ("Variable", describe(obj.dims), describe(obj.data), describe(obj.attrs))
    if t is Group:
        return ("Group", obj.path, obj.url, describe(obj.data), describe(obj.attrs))
    # subclasses of the builtin types (construct's enum integers / strings, containers)
    for base in (bool, int, float, str, bytes, tuple, list, dict):
        if isinstance(obj, base):
            if base is dict:
                inner = ("dict", [(describe(k), describe(v)) for k, v in obj.items()])
            elif base in (tuple, list):
                inner = base(describe(v) for v in obj)
            else:
                inner = base(obj)
            return ("subclass", t.__name__, inner)
    if hasattr(obj, "__dataclass_fields__"):
        return (
            "dataclass",
            t.__name__,
            [(name, describe(getattr(obj, name))) for name in obj.__dataclass_fields__],
        )
    return ("object", t.__module__, t.__name__, repr(obj))


def outcome(func, *args, **kwargs):
    """call and describe either the result or the exception"""
    try:
        result = func(*args, **kwargs)
    except BaseException as e:  # noqa: B902
        return ("raised", type(e).__module__, type(e).__name__, str(e))
    return ("returned", describe(result))


_BEGIN = "# === BEGIN RECORDED (from the unchanged code; EQUIV_RECORD=1 regenerates) ==="
_END = "# === END RECORDED ==="


def _record(results):
    path = os.path.abspath(__file__)
    with open(path) as f:
        source = f.read()
    head, rest = source.split("\n" + _BEGIN + "\n", 1)
    _, tail = rest.split("\n" + _END + "\n", 1)
    body = "EXPECTED = " + pprint.pformat(results, width=160, compact=True, sort_dicts=False)
    with open(path, "w") as f:
        f.write(head + "\n" + _BEGIN + "\n" + body + "\n" + _END + "\n" + tail)
    print(f"recorded {len(results)} cases")
    return 0


def main():
    import ceos_alos2

    print("ceos_alos2 from", ceos_alos2.__file__)
    try:
        results = compute()
    except BaseException:
        traceback.print_exc()
        print("FAILED: the case driver itself crashed")
        return 1

    if os.environ.get("EQUIV_RECORD") == "1":
        return _record(results)

    failures = []
    if list(results) != list(EXPECTED):
        failures.append(("<case names>", list(EXPECTED), list(results)))
    for name, actual in results.items():
        expected = EXPECTED.get(name)
        if actual != expected:
            failures.append((name, expected, actual))

    for name, expected, actual in failures:
        print(f"MISMATCH in {name}:")
        print("  expected:", pprint.pformat(expected, width=110)[:2000])
        print("  actual:  ", pprint.pformat(actual, width=110)[:2000])
    print(f"{len(results) - len(failures)} of {len(results)} cases identical to the recording")
    return 1 if failures else 0


def test_equiv():
    assert main() == 0
# --------------------------------------------------------------------------
# synthetic ALOS-2 image files (no real products are available)
# --------------------------------------------------------------------------
import struct as _struct

_DESCRIPTOR_FIELDS = [
    # (name, width); all ASCII, integers right-aligned, strings left-aligned
    ("ascii_ebcdic_flag", 2), ("blanks1", 2), ("format_control_document_id", 12),
    ("format_control_document_revision_level", 2), ("file_design_descriptor_revision_letter", 2),
    ("software_release_and_revision_number", 12), ("file_number", 4), ("file_id", 16),
    ("record_sequence_and_location_type_flag", 4), ("location_sequence_number", 8),
    ("field_length_of_sequence_number", 4), ("record_code_and_location_type_flag", 4),
    ("record_code_location", 8), ("record_code_field_length", 4),
    ("record_length_and_location_type_flag", 4), ("record_length_location", 8),
    ("record_length_field_length", 4), ("reserved1", 1), ("reserved2", 1), ("reserved3", 1),
    ("reserved4", 1), ("blanks6", 64), ("number_of_sar_data_records", 6),
    ("sar_data_record_length", 6), ("reserved5", 24),
    ("bit_length_per_sample", 4), ("number_of_samples_per_data_group", 4),
    ("number_of_bytes_per_data_group", 4),
    ("justification_and_order_of_samples_within_data_group", 4),
    ("number_of_sar_channels", 4), ("number_of_lines_per_dataset", 8),
    ("number_of_left_border_pixels_per_line", 4), ("number_of_data_groups_per_line", 8),
    ("number_of_right_border_pixels_per_line", 4), ("number_of_top_border_lines", 4),
    ("number_of_bottom_border_lines", 4), ("interleaving_id", 4),
    ("number_of_physical_records_per_line", 2),
    ("number_of_physical_records_per_multichannel_line_in_this_file", 2),
    ("number_of_bytes_of_prefix_data_per_record", 4),
    ("number_of_bytes_of_sar_data_per_record", 8),
    ("number_of_bytes_of_suffix_data_per_record", 4), ("prefix_suffix_repeat_flag", 4),
    ("sample_data_line_number_locator", 8), ("sar_channel_number_locator", 8),
    ("time_of_sar_data_line_locator", 8), ("left_fill_count_locator", 8),
    ("right_fill_count_locator", 8), ("pad_pixels_present_indicator", 4), ("blanks_a", 28),
    ("sar_data_line_quality_code_locator", 8), ("calibration_information_field_locator", 8),
    ("gain_values_field_locator", 8), ("bias_values_field_locator", 8),
    ("sar_data_format_type_indicator", 28), ("sar_data_format_type_code", 4),
    ("number_of_left_fill_bits_within_pixel", 4), ("number_of_right_fill_bits_within_pixel", 4),
    ("maximum_data_range_of_pixel", 8), ("number_of_burst_data", 4),
    ("number_of_lines_per_burst", 4), ("number_of_overlap_lines_with_adjacent_bursts", 4),
    ("blanks_b", 260),
]
assert 12 + sum(width for _, width in _DESCRIPTOR_FIELDS) == 720


def make_preamble(sequence_number, record_type, record_length):
    return _struct.pack(">IBBBBI", sequence_number, 50, record_type, 18, 20, record_length)


def make_file_descriptor(**values):
    defaults = {
        "ascii_ebcdic_flag": "A", "format_control_document_id": "CEOS-SAR", 
        "format_control_document_revision_level": "A", "file_design_descriptor_revision_letter": "A",
        "software_release_and_revision_number": "002.011", "file_number": 3,
        "file_id": "BSAR IMOP", "record_sequence_and_location_type_flag": "FSEQ",
        "location_sequence_number": 1, "field_length_of_sequence_number": 4,
        "record_code_and_location_type_flag": "FTYP", "record_code_location": 5,
        "record_code_field_length": 4, "record_length_and_location_type_flag": "FLGT",
        "record_length_location": 9, "record_length_field_length": 4,
        "bit_length_per_sample": 16, "number_of_samples_per_data_group": 1,
        "number_of_bytes_per_data_group": 2, "number_of_sar_channels": 1,
        "interleaving_id": "BSQ", "number_of_physical_records_per_line": 1,
        "number_of_physical_records_per_multichannel_line_in_this_file": 1,
        "sar_data_format_type_indicator": "UNSIGNED INTEGER*2", "sar_data_format_type_code": "IU2",
        "number_of_left_fill_bits_within_pixel": 0, "number_of_right_fill_bits_within_pixel": 0,
    }
    merged = defaults | values
    unknown = set(merged) - {name for name, _ in _DESCRIPTOR_FIELDS}
    assert not unknown, unknown

    parts = [make_preamble(1, 192, 720)]
    for name, width in _DESCRIPTOR_FIELDS:
        value = merged.get(name, "")
        text = f"{value:>{width}d}" if isinstance(value, int) else f"{value:<{width}s}"
        assert len(text) == width, (name, text)
        parts.append(text.encode("ascii"))
    content = b"".join(parts)
    assert len(content) == 720
    return content


def make_data_record(sequence_number, record_type, prefix_size, pixels, *, year=2020, seed=0):
    """a signal (type 10, 544 bytes prefix) or processed (type 11, 192 bytes prefix) data record

    The prefix words are small deterministic numbers, then the date fields are made valid.
    """
    record_length = prefix_size + len(pixels)
    n_words = (prefix_size - 12) // 4
    words = [(sequence_number * 13 + index * 7 + seed) % 97 for index in range(n_words)]
    words[0] = sequence_number  # sar_image_data_line_number
    words[1] = 1  # sar_image_data_record_index
    words[6] = year
    words[7] = 1 + (sequence_number * 37 + seed) % 365  # day of year
    words[8] = (sequence_number * 1234567 + seed) % 86400000  # milliseconds of the day
    prefix = make_preamble(sequence_number, record_type, record_length) + _struct.pack(
        f">{n_words}I", *words
    )
    assert len(prefix) == prefix_size
    return prefix + pixels


def make_pixels(line, n_pixels, type_code):
    if type_code == "IU2":
        return _struct.pack(f">{n_pixels}H", *[(line * 100 + col) % 65536 for col in range(n_pixels)])
    elif type_code == "C*8":
        values = []
        for col in range(n_pixels):
            values.extend([line + col / 4, -line + col / 8])
        return _struct.pack(f">{2 * n_pixels}f", *values)
    raise AssertionError(type_code)


def make_image(n_lines, n_pixels, *, record_type=10, type_code="IU2", seed=0, **header_values):
    prefix_size = {10: 544, 11: 192}[record_type]
    records = [
        make_data_record(
            line, record_type, prefix_size, make_pixels(line, n_pixels, type_code), seed=seed
        )
        for line in range(1, n_lines + 1)
    ]
    record_length = len(records[0]) if records else prefix_size
    header = {
        "number_of_sar_data_records": n_lines,
        "sar_data_record_length": record_length,
        "number_of_lines_per_dataset": n_lines,
        "number_of_data_groups_per_line": n_pixels,
        "number_of_bytes_of_prefix_data_per_record": prefix_size,
        "number_of_bytes_of_sar_data_per_record": record_length - prefix_size,
        "sar_data_format_type_code": type_code,
    } | header_values
    return make_file_descriptor(**header) + b"".join(records)

class RecordingFile:
    """file object that logs every request"""

    def __init__(self, content, log):
        self._f = _io.BytesIO(content)
        self._log = log

    def read(self, *args, **kwargs):
        self._log.append(("read", describe(list(args)), describe(kwargs), self._f.tell()))
        return self._f.read(*args, **kwargs)

    def seek(self, *args, **kwargs):
        self._log.append(("seek", describe(list(args)), describe(kwargs)))
        return self._f.seek(*args, **kwargs)

    def tell(self):
        self._log.append(("tell",))
        return self._f.tell()

    def __getattr__(self, name):
        self._log.append(("getattr", name))
        return getattr(self._f, name)


def digest(described):
    return ("sha256", hashlib.sha256(repr(described).encode()).hexdigest())


def run(content, *args, full=False, patches=None, **kwargs):
    """returns (outcome or its digest, positions summary, request log)"""
    log = []
    f = RecordingFile(content, log)

    saved = {}
    for name, value in (patches or {}).items():
        saved[name] = getattr(sar_io, name)
        setattr(sar_io, name, value)
    try:
        summary = None
        try:
            result = sar_io.read_metadata(f, *args, **kwargs)
        except BaseException as e:  # noqa: B902
            described = ("raised", type(e).__module__, type(e).__name__, str(e))
        else:
            described = ("returned", describe(result))
            header, metadata = result
            summary = (
                type(result).__name__,
                type(header).__name__,
                type(metadata).__name__,
                len(metadata),
                [
                    (type(m).__name__, m.get("record_start"), describe(m.get("data")))
                    for m in metadata
                ],
            )
    finally:
        for name, value in saved.items():
            setattr(sar_io, name, value)

    if described[0] == "returned" and not full:
        described = digest(described)

    return {"result": described, "summary": summary, "requests": log, "position": f._f.tell()}


dummy_record_types = {
    11: Struct(
        "preamble" / sar_io.record_preamble,
        "record_start" / Tell,
        "a" / Int8ub,
        "data" / Struct("start" / Tell, "stop" / Seek(this.start + 4)),
    ),
}


def dummy_content(n_records, record_type=11, record_length=17):
    return b"\x03\x0E" + b"".join(
        make_preamble(index, record_type, record_length) + bytes([index + 2, 0, 0, 0, 0])
        for index in range(1, n_records + 1)
    )


def dummy_reader(header):
    def read_file_descriptor(f):
        f.read(2)

        return header

    return read_file_descriptor


def compute():
    results = {}

    # --- real record layouts -------------------------------------------------
    signal = make_image(5, 4, record_type=10, type_code="C*8", seed=3)
    processed = make_image(4, 3, record_type=11, type_code="IU2", seed=11)
    empty = make_image(0, 3, record_type=11, type_code="IU2")
    single = make_image(1, 2, record_type=10, type_code="IU2", seed=5)

    results["signal/two-lines/full/default"] = run(
        make_image(2, 2, record_type=10, type_code="C*8", seed=8), full=True
    )
    results["signal/default"] = run(signal)
    for rpc in (1, 2, 3, 4, 5, 6, 7, 1024, 2**40):
        results[f"signal/rpc={rpc}"] = run(signal, rpc)
        results[f"signal/kw-rpc={rpc}"] = run(signal, records_per_chunk=rpc)
    results["processed/full/rpc=3"] = run(processed, 3, full=True)
    for rpc in (1, 2, 3, 4, 5, 1024):
        results[f"processed/rpc={rpc}"] = run(processed, rpc)
    for rpc in (1, 2, 1024):
        results[f"empty/rpc={rpc}"] = run(empty, rpc, full=rpc == 2)
        results[f"single/rpc={rpc}"] = run(single, rpc)

    # --- unusual chunk sizes -------------------------------------------------
    for rpc in (None, 0, -1, -2, -7, 2.0, 2.5, 0.5, "auto", "2", True, False, [2], 10**30):
        results[f"signal/odd-rpc={rpc!r}"] = run(signal, rpc)
        results[f"empty/odd-rpc={rpc!r}"] = run(empty, rpc)
    results["signal/rpc=float-inf"] = run(signal, float("inf"))
    results["signal/rpc=float-nan"] = run(signal, float("nan"))

    # --- damaged files -------------------------------------------------------
    record_length = 544 + 4 * 8
    results["truncated/in-header"] = run(signal[:500], 2)
    results["truncated/no-header"] = run(b"", 2)
    results["truncated/after-header"] = run(signal[:720], 2)
    results["truncated/within-first-record"] = run(signal[: 720 + 100], 2)
    results["truncated/within-third-record"] = run(signal[: 720 + 2 * record_length + 7], 2)
    results["truncated/within-third-record/rpc=1"] = run(signal[: 720 + 2 * record_length + 7], 1)
    results["truncated/last-record-missing"] = run(signal[: 720 + 4 * record_length], 2)
    results["truncated/last-record-missing/rpc=5"] = run(signal[: 720 + 4 * record_length], 5)
    results["trailing-bytes"] = run(signal + b"\x00" * 100, 2)

    unknown_type = bytearray(signal)
    unknown_type[720 + 2 * record_length + 5] = 12
    results["unknown-type-in-third-record/rpc=1"] = run(bytes(unknown_type), 1)
    results["unknown-type-in-third-record/rpc=2"] = run(bytes(unknown_type), 2)
    results["unknown-type-in-third-record/rpc=3"] = run(bytes(unknown_type), 3)

    mixed = bytearray(processed)
    mixed[720 + 200 + 5] = 10  # second record claims to be signal data
    results["mixed-types/rpc=1"] = run(bytes(mixed), 1)
    results["mixed-types/rpc=2"] = run(bytes(mixed), 2)

    more_records = make_image(4, 3, record_type=11, number_of_sar_data_records=6)
    results["header-claims-more-records/rpc=4"] = run(more_records, 4)
    results["header-claims-more-records/rpc=1"] = run(more_records, 1)
    fewer_records = make_image(4, 3, record_type=11, number_of_sar_data_records=2)
    results["header-claims-fewer-records"] = run(fewer_records, 4)
    blank_count = make_image(4, 3, record_type=11, number_of_sar_data_records="")
    results["header-blank-record-count"] = run(blank_count, 4)
    blank_length = make_image(4, 3, record_type=11, sar_data_record_length="")
    results["header-blank-record-length"] = run(blank_length, 4)
    wrong_length = make_image(4, 3, record_type=11, sar_data_record_length=100)
    results["header-wrong-record-length/rpc=2"] = run(wrong_length, 2)
    wrong_length = make_image(4, 3, record_type=11, sar_data_record_length=400)
    results["header-double-record-length/rpc=2"] = run(wrong_length, 2)
    results["header-double-record-length/rpc=1"] = run(wrong_length, 1)
    zero_length = make_image(4, 3, record_type=11, sar_data_record_length=0)
    results["header-zero-record-length"] = run(zero_length, 2)
    non_ascii = bytearray(processed)
    non_ascii[180:186] = b"\xff" * 6
    results["header-not-ascii"] = run(bytes(non_ascii), 2)

    # --- dummy layouts, installed like the test-suite does -------------------
    for n_records in (0, 1, 3, 7):
        header = {"number_of_sar_data_records": n_records, "sar_data_record_length": 17}
        patches = {
            "record_types": dummy_record_types,
            "read_file_descriptor": dummy_reader(header),
        }
        for rpc in (1, 2, 3, 4, 1024):
            results[f"dummy/n={n_records}/rpc={rpc}"] = run(
                dummy_content(n_records), rpc, full=True, patches=patches
            )

    for header in (
        {},
        {"number_of_sar_data_records": 3},
        {"sar_data_record_length": 17},
        {"number_of_sar_data_records": 3, "sar_data_record_length": 17, "extra": (1, 2)},
        {"number_of_sar_data_records": 3.0, "sar_data_record_length": 17},
        {"number_of_sar_data_records": 2.5, "sar_data_record_length": 17},
        {"number_of_sar_data_records": "3", "sar_data_record_length": 17},
        {"number_of_sar_data_records": 3, "sar_data_record_length": "17"},
        {"number_of_sar_data_records": None, "sar_data_record_length": 17},
        {"number_of_sar_data_records": 3, "sar_data_record_length": None},
    ):
        patches = {
            "record_types": dummy_record_types,
            "read_file_descriptor": dummy_reader(header),
        }
        for rpc in (2, None):
            results[f"dummy/header={header!r}/rpc={rpc}"] = run(
                dummy_content(3), rpc, full=True, patches=patches
            )

    # the helpers used by read_metadata are looked up in the module at call time
    calls = []

    def spy_parse_chunk(content, element_size, _original=sar_io.parse_chunk):
        calls.append(("parse_chunk", len(content), element_size))
        return _original(content, element_size)

    def spy_adjust_offsets(records, offset, _original=sar_io.adjust_offsets):
        calls.append(("adjust_offsets", len(records), offset))
        return _original(records, offset)

    header = {"number_of_sar_data_records": 5, "sar_data_record_length": 17}
    patches = {
        "record_types": dummy_record_types,
        "read_file_descriptor": dummy_reader(header),
        "parse_chunk": spy_parse_chunk,
        "adjust_offsets": spy_adjust_offsets,
    }
    results["dummy/spies"] = run(dummy_content(5), 2, full=True, patches=patches)
    results["dummy/spies/calls"] = list(calls)

    # module surface
    results["module/names"] = sorted(
        name
        for name in ("parse_chunk", "adjust_offsets", "read_file_descriptor", "read_metadata",
                     "record_types", "record_preamble")
        if hasattr(sar_io, name)
    )
    import inspect

    results["module/signature"] = str(inspect.signature(sar_io.read_metadata))

    return results


# === BEGIN RECORDED (from the unchanged code; EQUIV_RECORD=1 regenerates) ===
EXPECTED = {'signal/two-lines/full/default': {'result': ('returned',
                                              (('dict',
                                                [('preamble',
                                                  ('dict',
                                                   [('record_sequence_number', 1), ('first_record_subtype', 50), ('record_type', 192),
                                                    ('second_record_subtype', 18), ('third_record_subtype', 20), ('record_length', 720)])),
                                                 ('ascii_ebcdic_flag', 'A'), ('blanks1', ''), ('format_control_document_id', 'CEOS-SAR'),
                                                 ('format_control_document_revision_level', 'A'), ('file_design_descriptor_revision_letter', 'A'),
                                                 ('software_release_and_revision_number', '002.011'), ('file_number', 3), ('file_id', 'BSAR IMOP'),
                                                 ('record_sequence_and_location_type_flag', 'FSEQ'), ('location_sequence_number', 1),
                                                 ('field_length_of_sequence_number', 4), ('record_code_and_location_type_flag', 'FTYP'),
                                                 ('record_code_location', 5), ('record_code_field_length', 4), ('record_length_and_location_type_flag', 'FLGT'),
                                                 ('record_length_location', 9), ('record_length_field_length', 4), ('reserved1', ''), ('reserved2', ''),
                                                 ('reserved3', ''), ('reserved4', ''), ('blanks6', ''), ('number_of_sar_data_records', 2),
                                                 ('sar_data_record_length', 560), ('reserved5', ''),
                                                 ('sample_group_data',
                                                  ('dict',
                                                   [('bit_length_per_sample', 16), ('number_of_samples_per_data_group', 1),
                                                    ('number_of_bytes_per_data_group', 2), ('justification_and_order_of_samples_within_data_group', '')])),
                                                 ('sar_related_data_in_the_record',
                                                  ('dict',
                                                   [('number_of_sar_channels', 1), ('number_of_lines_per_dataset', 2),
                                                    ('number_of_left_border_pixels_per_line', -1), ('number_of_data_groups_per_line', 2),
                                                    ('number_of_right_border_pixels_per_line', -1), ('number_of_top_border_lines', -1),
                                                    ('number_of_bottom_border_lines', -1), ('interleaving_id', 'BSQ')])),
                                                 ('record_data_in_the_file',
                                                  ('dict',
                                                   [('number_of_physical_records_per_line', 1),
                                                    ('number_of_physical_records_per_multichannel_line_in_this_file', 1),
                                                    ('number_of_bytes_of_prefix_data_per_record', 544), ('number_of_bytes_of_sar_data_per_record', 16),
                                                    ('number_of_bytes_of_suffix_data_per_record', -1), ('prefix_suffix_repeat_flag', '')])),
                                                 ('prefix_suffix_data_locators',
                                                  ('dict',
                                                   [('sample_data_line_number_locator', ''), ('sar_channel_number_locator', ''),
                                                    ('time_of_sar_data_line_locator', ''), ('left_fill_count_locator', ''), ('right_fill_count_locator', ''),
                                                    ('pad_pixels_present_indicator', ''), ('blanks', ''), ('sar_data_line_quality_code_locator', ''),
                                                    ('calibration_information_field_locator', ''), ('gain_values_field_locator', ''),
                                                    ('bias_values_field_locator', ''), ('sar_data_format_type_indicator', 'UNSIGNED INTEGER*2'),
                                                    ('sar_data_format_type_code', 'C*8'), ('number_of_left_fill_bits_within_pixel', 0),
                                                    ('number_of_right_fill_bits_within_pixel', 0), ('maximum_data_range_of_pixel', -1),
                                                    ('number_of_burst_data', -1), ('number_of_lines_per_burst', -1)])),
                                                 ('scansar_burst_data_information',
                                                  ('dict', [('number_of_overlap_lines_with_adjacent_bursts', -1), ('blanks', '')]))]),
                                               [('dict',
                                                 [('record_start', 720),
                                                  ('preamble',
                                                   ('dict',
                                                    [('record_sequence_number', 1), ('first_record_subtype', 50), ('record_type', 10),
                                                     ('second_record_subtype', 18), ('third_record_subtype', 20), ('record_length', 560)])),
                                                  ('sar_image_data_line_number', 1), ('sar_image_data_record_index', 1),
                                                  ('actual_count_of_left_fill_pixels', 35), ('actual_count_of_data_pixels', 42),
                                                  ('actual_count_of_right_fill_pixels', 49), ('sensor_parameters_update_flag', 56),
                                                  ('sensor_acquisition_date', ('datetime', '2020-02-15T00:20:34.575000')),
                                                  ('sar_channel_id', ('subclass', 'EnumInteger', 0)), ('sar_channel_code', ('subclass', 'EnumInteger', 84)),
                                                  ('transmitted_pulse_polarization', 'horizontal'),
                                                  ('received_pulse_polarization', ('subclass', 'EnumInteger', 91)), ('prf', (1, ('dict', [('units', 'mHz')]))),
                                                  ('scan_id', 8), ('onboard_range_compressed_flag', False),
                                                  ('chirp_type_designator', ('subclass', 'EnumInteger', 15)),
                                                  ('chirp_length', (22, ('dict', [('units', 'ns')]))),
                                                  ('chirp_constant_coefficient', (29, ('dict', [('units', 'Hz')]))),
                                                  ('chirp_linear_coefficient', (36, ('dict', [('units', 'Hz/µs')]))),
                                                  ('chirp_quadratic_coefficient', (43, ('dict', [('units', 'Hz/µs^2')]))),
                                                  ('sensor_acquisition_date_microseconds', ('datetime', '2020-02-17T11:39:08.364857')),
                                                  ('receiver_gain', (64, ('dict', [('units', 'dB')]))), ('invalid_line_flag', True),
                                                  ('elevation_angle_at_nadir_of_antenna',
                                                   ('dict',
                                                    [('electronic', (78, ('dict', [('units', 'deg')]))), ('mechanic', (85, ('dict', [('units', 'deg')])))])),
                                                  ('antenna_squint_angle',
                                                   ('dict',
                                                    [('electronic', (92, ('dict', [('units', 'deg')]))), ('mechanic', (2, ('dict', [('units', 'deg')])))])),
                                                  ('slant_range_to_first_data_sample', (9, ('dict', [('units', 'm')]))),
                                                  ('data_record_window_position', (16, ('dict', [('units', 'ns')]))), ('blanks1', 23),
                                                  ('platform_position_parameters_update_flag', ('subclass', 'EnumInteger', 30)),
                                                  ('platform_latitude', (3.7e-05, ('dict', [('units', 'deg')]))),
                                                  ('platform_longitude', (4.4e-05, ('dict', [('units', 'deg')]))),
                                                  ('platform_altitude', (51, ('dict', [('units', 'deg')]))),
                                                  ('platform_ground_speed', (58, ('dict', [('units', 'cm/s')]))),
                                                  ('platform_velocity',
                                                   ('dict',
                                                    [('x', (65, ('dict', [('units', 'cm/s')]))), ('y', (72, ('dict', [('units', 'cm/s')]))),
                                                     ('z', (79, ('dict', [('units', 'cm/s')])))])),
                                                  ('platform_acceleration',
                                                   ('dict',
                                                    [('x', (86, ('dict', [('units', 'cm/s^2')]))), ('y', (93, ('dict', [('units', 'cm/s^2')]))),
                                                     ('z', (3, ('dict', [('units', 'cm/s^2')])))])),
                                                  ('platform_track_angle', (9.999999999999999e-06, ('dict', [('units', 'deg')]))),
                                                  ('platform_true_track_angle', (1.7e-05, ('dict', [('units', 'deg')]))),
                                                  ('platform_attitude',
                                                   ('dict',
                                                    [('pitch', (2.4e-05, ('dict', [('units', 'deg')]))), ('roll', (3.1e-05, ('dict', [('units', 'deg')]))),
                                                     ('yaw', (3.7999999999999995e-05, ('dict', [('units', 'deg')])))])),
                                                  ('latitude_of_first_pixel', (4.4999999999999996e-05, ('dict', [('units', 'deg')]))),
                                                  ('latitude_of_center_pixel', (5.2e-05, ('dict', [('units', 'deg')]))),
                                                  ('latitude_of_last_pixel', (5.9e-05, ('dict', [('units', 'deg')]))),
                                                  ('longitude_of_first_pixel', (6.599999999999999e-05, ('dict', [('units', 'deg')]))),
                                                  ('longitude_of_center_pixel', (7.3e-05, ('dict', [('units', 'deg')]))),
                                                  ('longitude_of_last_pixel', (7.999999999999999e-05, ('dict', [('units', 'deg')]))), ('burst_number', 87),
                                                  ('line_number_in_this_burst', 94),
                                                  ('blanks2',
                                                   b"\x04\x00\x00\x00\x0b\x00\x00\x00\x12\x00\x00\x00\x19\x00\x00\x00 \x00\x00\x00'\x00\x00\x00.\x00\x00\x00"
                                                   b'5\x00\x00\x00<\x00\x00\x00C\x00\x00\x00J\x00\x00\x00Q\x00\x00\x00X\x00\x00\x00_\x00\x00\x00\x05'),
                                                  ('alos2_frame_number', 12),
                                                  ('palsar_auxiliary_data',
                                                   b'\x13\x00\x00\x00\x1a\x00\x00\x00!\x00\x00\x00(\x00\x00\x00/\x00\x00\x006\x00\x00\x00=\x00\x00\x00'
                                                   b'D\x00\x00\x00K\x00\x00\x00R\x00\x00\x00Y\x00\x00\x00`\x00\x00\x00\x06\x00\x00\x00\r\x00\x00\x00'
                                                   b'\x14\x00\x00\x00\x1b\x00\x00\x00"\x00\x00\x00)\x00\x00\x000\x00\x00\x007\x00\x00\x00>\x00\x00\x00'
                                                   b'E\x00\x00\x00L\x00\x00\x00S\x00\x00\x00Z\x00\x00\x00\x00\x00\x00\x00\x07\x00\x00\x00\x0e\x00\x00\x00'
                                                   b'\x15\x00\x00\x00\x1c\x00\x00\x00#\x00\x00\x00*\x00\x00\x001\x00\x00\x008\x00\x00\x00?\x00\x00\x00'
                                                   b'F\x00\x00\x00M\x00\x00\x00T\x00\x00\x00[\x00\x00\x00\x01\x00\x00\x00\x08\x00\x00\x00\x0f\x00\x00\x00'
                                                   b'\x16\x00\x00\x00\x1d\x00\x00\x00$\x00\x00\x00+\x00\x00\x002\x00\x00\x009\x00\x00\x00@\x00\x00\x00'
                                                   b'G\x00\x00\x00N\x00\x00\x00U\x00\x00\x00\\\x00\x00\x00\x02\x00\x00\x00\t\x00\x00\x00\x10\x00\x00\x00'
                                                   b'\x17\x00\x00\x00\x1e\x00\x00\x00%\x00\x00\x00,\x00\x00\x003\x00\x00\x00:\x00\x00\x00A\x00\x00\x00H'),
                                                  ('data', ('dict', [('start', 1264), ('size', 16), ('stop', 1280)]))]),
                                                ('dict',
                                                 [('record_start', 1280),
                                                  ('preamble',
                                                   ('dict',
                                                    [('record_sequence_number', 2), ('first_record_subtype', 50), ('record_type', 10),
                                                     ('second_record_subtype', 18), ('third_record_subtype', 20), ('record_length', 560)])),
                                                  ('sar_image_data_line_number', 2), ('sar_image_data_record_index', 1),
                                                  ('actual_count_of_left_fill_pixels', 48), ('actual_count_of_data_pixels', 55),
                                                  ('actual_count_of_right_fill_pixels', 62), ('sensor_parameters_update_flag', 69),
                                                  ('sensor_acquisition_date', ('datetime', '2020-03-23T00:41:09.142000')),
                                                  ('sar_channel_id', ('subclass', 'EnumInteger', 0)), ('sar_channel_code', 'L'),
                                                  ('transmitted_pulse_polarization', 'horizontal'),
                                                  ('received_pulse_polarization', ('subclass', 'EnumInteger', 7)), ('prf', (14, ('dict', [('units', 'mHz')]))),
                                                  ('scan_id', 21), ('onboard_range_compressed_flag', False),
                                                  ('chirp_type_designator', ('subclass', 'EnumInteger', 28)),
                                                  ('chirp_length', (35, ('dict', [('units', 'ns')]))),
                                                  ('chirp_constant_coefficient', (42, ('dict', [('units', 'Hz')]))),
                                                  ('chirp_linear_coefficient', (49, ('dict', [('units', 'Hz/µs')]))),
                                                  ('chirp_quadratic_coefficient', (56, ('dict', [('units', 'Hz/µs^2')]))),
                                                  ('sensor_acquisition_date_microseconds', ('datetime', '2020-03-26T03:09:42.939718')),
                                                  ('receiver_gain', (77, ('dict', [('units', 'dB')]))), ('invalid_line_flag', True),
                                                  ('elevation_angle_at_nadir_of_antenna',
                                                   ('dict',
                                                    [('electronic', (91, ('dict', [('units', 'deg')]))), ('mechanic', (1, ('dict', [('units', 'deg')])))])),
                                                  ('antenna_squint_angle',
                                                   ('dict',
                                                    [('electronic', (8, ('dict', [('units', 'deg')]))), ('mechanic', (15, ('dict', [('units', 'deg')])))])),
                                                  ('slant_range_to_first_data_sample', (22, ('dict', [('units', 'm')]))),
                                                  ('data_record_window_position', (29, ('dict', [('units', 'ns')]))), ('blanks1', 36),
                                                  ('platform_position_parameters_update_flag', ('subclass', 'EnumInteger', 43)),
                                                  ('platform_latitude', (4.9999999999999996e-05, ('dict', [('units', 'deg')]))),
                                                  ('platform_longitude', (5.6999999999999996e-05, ('dict', [('units', 'deg')]))),
                                                  ('platform_altitude', (64, ('dict', [('units', 'deg')]))),
                                                  ('platform_ground_speed', (71, ('dict', [('units', 'cm/s')]))),
                                                  ('platform_velocity',
                                                   ('dict',
                                                    [('x', (78, ('dict', [('units', 'cm/s')]))), ('y', (85, ('dict', [('units', 'cm/s')]))),
                                                     ('z', (92, ('dict', [('units', 'cm/s')])))])),
                                                  ('platform_acceleration',
                                                   ('dict',
                                                    [('x', (2, ('dict', [('units', 'cm/s^2')]))), ('y', (9, ('dict', [('units', 'cm/s^2')]))),
                                                     ('z', (16, ('dict', [('units', 'cm/s^2')])))])),
                                                  ('platform_track_angle', (2.3e-05, ('dict', [('units', 'deg')]))),
                                                  ('platform_true_track_angle', (2.9999999999999997e-05, ('dict', [('units', 'deg')]))),
                                                  ('platform_attitude',
                                                   ('dict',
                                                    [('pitch', (3.7e-05, ('dict', [('units', 'deg')]))), ('roll', (4.4e-05, ('dict', [('units', 'deg')]))),
                                                     ('yaw', (5.1e-05, ('dict', [('units', 'deg')])))])),
                                                  ('latitude_of_first_pixel', (5.8e-05, ('dict', [('units', 'deg')]))),
                                                  ('latitude_of_center_pixel', (6.5e-05, ('dict', [('units', 'deg')]))),
                                                  ('latitude_of_last_pixel', (7.2e-05, ('dict', [('units', 'deg')]))),
                                                  ('longitude_of_first_pixel', (7.9e-05, ('dict', [('units', 'deg')]))),
                                                  ('longitude_of_center_pixel', (8.599999999999999e-05, ('dict', [('units', 'deg')]))),
                                                  ('longitude_of_last_pixel', (9.3e-05, ('dict', [('units', 'deg')]))), ('burst_number', 3),
                                                  ('line_number_in_this_burst', 10),
                                                  ('blanks2',
                                                   b'\x11\x00\x00\x00\x18\x00\x00\x00\x1f\x00\x00\x00&\x00\x00\x00-\x00\x00\x004\x00\x00\x00;\x00\x00\x00'
                                                   b'B\x00\x00\x00I\x00\x00\x00P\x00\x00\x00W\x00\x00\x00^\x00\x00\x00\x04\x00\x00\x00\x0b\x00\x00\x00\x12'),
                                                  ('alos2_frame_number', 25),
                                                  ('palsar_auxiliary_data',
                                                   b" \x00\x00\x00'\x00\x00\x00.\x00\x00\x005\x00\x00\x00<\x00\x00\x00C\x00\x00\x00J\x00\x00\x00Q\x00\x00\x00"
                                                   b'X\x00\x00\x00_\x00\x00\x00\x05\x00\x00\x00\x0c\x00\x00\x00\x13\x00\x00\x00\x1a\x00\x00\x00!\x00\x00\x00'
                                                   b'(\x00\x00\x00/\x00\x00\x006\x00\x00\x00=\x00\x00\x00D\x00\x00\x00K\x00\x00\x00R\x00\x00\x00Y\x00\x00\x00'
                                                   b'`\x00\x00\x00\x06\x00\x00\x00\r\x00\x00\x00\x14\x00\x00\x00\x1b\x00\x00\x00"\x00\x00\x00)\x00\x00\x00'
                                                   b'0\x00\x00\x007\x00\x00\x00>\x00\x00\x00E\x00\x00\x00L\x00\x00\x00S\x00\x00\x00Z\x00\x00\x00'
                                                   b'\x00\x00\x00\x00\x07\x00\x00\x00\x0e\x00\x00\x00\x15\x00\x00\x00\x1c\x00\x00\x00#\x00\x00\x00*\x00\x00\x00'
                                                   b'1\x00\x00\x008\x00\x00\x00?\x00\x00\x00F\x00\x00\x00M\x00\x00\x00T\x00\x00\x00[\x00\x00\x00'
                                                   b'\x01\x00\x00\x00\x08\x00\x00\x00\x0f\x00\x00\x00\x16\x00\x00\x00\x1d\x00\x00\x00$\x00\x00\x00+\x00\x00\x00'
                                                   b'2\x00\x00\x009\x00\x00\x00@\x00\x00\x00G\x00\x00\x00N\x00\x00\x00U'),
                                                  ('data', ('dict', [('start', 1824), ('size', 16), ('stop', 1840)]))])])),
                                   'summary': ('tuple', 'dict', 'list', 2,
                                               [('dict', 720, ('dict', [('start', 1264), ('size', 16), ('stop', 1280)])),
                                                ('dict', 1280, ('dict', [('start', 1824), ('size', 16), ('stop', 1840)]))]),
                                   'requests': [('read', [720], ('dict', []), 0), ('read', [1120], ('dict', []), 720)],
                                   'position': 1840},
 'signal/default': {'result': ('sha256', 'f369bddcaca135af353d200ffb03ecc80d23a30680cadba1531869b05b2984b8'),
                    'summary': ('tuple', 'dict', 'list', 5,
                                [('dict', 720, ('dict', [('start', 1264), ('size', 32), ('stop', 1296)])),
                                 ('dict', 1296, ('dict', [('start', 1840), ('size', 32), ('stop', 1872)])),
                                 ('dict', 1872, ('dict', [('start', 2416), ('size', 32), ('stop', 2448)])),
                                 ('dict', 2448, ('dict', [('start', 2992), ('size', 32), ('stop', 3024)])),
                                 ('dict', 3024, ('dict', [('start', 3568), ('size', 32), ('stop', 3600)]))]),
                    'requests': [('read', [720], ('dict', []), 0), ('read', [2880], ('dict', []), 720)],
                    'position': 3600},
 'signal/rpc=1': {'result': ('sha256', 'f369bddcaca135af353d200ffb03ecc80d23a30680cadba1531869b05b2984b8'),
                  'summary': ('tuple', 'dict', 'list', 5,
                              [('dict', 720, ('dict', [('start', 1264), ('size', 32), ('stop', 1296)])),
                               ('dict', 1296, ('dict', [('start', 1840), ('size', 32), ('stop', 1872)])),
                               ('dict', 1872, ('dict', [('start', 2416), ('size', 32), ('stop', 2448)])),
                               ('dict', 2448, ('dict', [('start', 2992), ('size', 32), ('stop', 3024)])),
                               ('dict', 3024, ('dict', [('start', 3568), ('size', 32), ('stop', 3600)]))]),
                  'requests': [('read', [720], ('dict', []), 0), ('read', [576], ('dict', []), 720), ('read', [576], ('dict', []), 1296),
                               ('read', [576], ('dict', []), 1872), ('read', [576], ('dict', []), 2448), ('read', [576], ('dict', []), 3024)],
                  'position': 3600},
 'signal/kw-rpc=1': {'result': ('sha256', 'f369bddcaca135af353d200ffb03ecc80d23a30680cadba1531869b05b2984b8'),
                     'summary': ('tuple', 'dict', 'list', 5,
                                 [('dict', 720, ('dict', [('start', 1264), ('size', 32), ('stop', 1296)])),
                                  ('dict', 1296, ('dict', [('start', 1840), ('size', 32), ('stop', 1872)])),
                                  ('dict', 1872, ('dict', [('start', 2416), ('size', 32), ('stop', 2448)])),
                                  ('dict', 2448, ('dict', [('start', 2992), ('size', 32), ('stop', 3024)])),
                                  ('dict', 3024, ('dict', [('start', 3568), ('size', 32), ('stop', 3600)]))]),
                     'requests': [('read', [720], ('dict', []), 0), ('read', [576], ('dict', []), 720), ('read', [576], ('dict', []), 1296),
                                  ('read', [576], ('dict', []), 1872), ('read', [576], ('dict', []), 2448), ('read', [576], ('dict', []), 3024)],
                     'position': 3600},
 'signal/rpc=2': {'result': ('sha256', 'f369bddcaca135af353d200ffb03ecc80d23a30680cadba1531869b05b2984b8'),
                  'summary': ('tuple', 'dict', 'list', 5,
                              [('dict', 720, ('dict', [('start', 1264), ('size', 32), ('stop', 1296)])),
                               ('dict', 1296, ('dict', [('start', 1840), ('size', 32), ('stop', 1872)])),
                               ('dict', 1872, ('dict', [('start', 2416), ('size', 32), ('stop', 2448)])),
                               ('dict', 2448, ('dict', [('start', 2992), ('size', 32), ('stop', 3024)])),
                               ('dict', 3024, ('dict', [('start', 3568), ('size', 32), ('stop', 3600)]))]),
                  'requests': [('read', [720], ('dict', []), 0), ('read', [1152], ('dict', []), 720), ('read', [1152], ('dict', []), 1872),
                               ('read', [576], ('dict', []), 3024)],
                  'position': 3600},
 'signal/kw-rpc=2': {'result': ('sha256', 'f369bddcaca135af353d200ffb03ecc80d23a30680cadba1531869b05b2984b8'),
                     'summary': ('tuple', 'dict', 'list', 5,
                                 [('dict', 720, ('dict', [('start', 1264), ('size', 32), ('stop', 1296)])),
                                  ('dict', 1296, ('dict', [('start', 1840), ('size', 32), ('stop', 1872)])),
                                  ('dict', 1872, ('dict', [('start', 2416), ('size', 32), ('stop', 2448)])),
                                  ('dict', 2448, ('dict', [('start', 2992), ('size', 32), ('stop', 3024)])),
                                  ('dict', 3024, ('dict', [('start', 3568), ('size', 32), ('stop', 3600)]))]),
                     'requests': [('read', [720], ('dict', []), 0), ('read', [1152], ('dict', []), 720), ('read', [1152], ('dict', []), 1872),
                                  ('read', [576], ('dict', []), 3024)],
                     'position': 3600},
 'signal/rpc=3': {'result': ('sha256', 'f369bddcaca135af353d200ffb03ecc80d23a30680cadba1531869b05b2984b8'),
                  'summary': ('tuple', 'dict', 'list', 5,
                              [('dict', 720, ('dict', [('start', 1264), ('size', 32), ('stop', 1296)])),
                               ('dict', 1296, ('dict', [('start', 1840), ('size', 32), ('stop', 1872)])),
                               ('dict', 1872, ('dict', [('start', 2416), ('size', 32), ('stop', 2448)])),
                               ('dict', 2448, ('dict', [('start', 2992), ('size', 32), ('stop', 3024)])),
                               ('dict', 3024, ('dict', [('start', 3568), ('size', 32), ('stop', 3600)]))]),
                  'requests': [('read', [720], ('dict', []), 0), ('read', [1728], ('dict', []), 720), ('read', [1152], ('dict', []), 2448)],
                  'position': 3600},
 'signal/kw-rpc=3': {'result': ('sha256', 'f369bddcaca135af353d200ffb03ecc80d23a30680cadba1531869b05b2984b8'),
                     'summary': ('tuple', 'dict', 'list', 5,
                                 [('dict', 720, ('dict', [('start', 1264), ('size', 32), ('stop', 1296)])),
                                  ('dict', 1296, ('dict', [('start', 1840), ('size', 32), ('stop', 1872)])),
                                  ('dict', 1872, ('dict', [('start', 2416), ('size', 32), ('stop', 2448)])),
                                  ('dict', 2448, ('dict', [('start', 2992), ('size', 32), ('stop', 3024)])),
                                  ('dict', 3024, ('dict', [('start', 3568), ('size', 32), ('stop', 3600)]))]),
                     'requests': [('read', [720], ('dict', []), 0), ('read', [1728], ('dict', []), 720), ('read', [1152], ('dict', []), 2448)],
                     'position': 3600},
 'signal/rpc=4': {'result': ('sha256', 'f369bddcaca135af353d200ffb03ecc80d23a30680cadba1531869b05b2984b8'),
                  'summary': ('tuple', 'dict', 'list', 5,
                              [('dict', 720, ('dict', [('start', 1264), ('size', 32), ('stop', 1296)])),
                               ('dict', 1296, ('dict', [('start', 1840), ('size', 32), ('stop', 1872)])),
                               ('dict', 1872, ('dict', [('start', 2416), ('size', 32), ('stop', 2448)])),
                               ('dict', 2448, ('dict', [('start', 2992), ('size', 32), ('stop', 3024)])),
                               ('dict', 3024, ('dict', [('start', 3568), ('size', 32), ('stop', 3600)]))]),
                  'requests': [('read', [720], ('dict', []), 0), ('read', [2304], ('dict', []), 720), ('read', [576], ('dict', []), 3024)],
                  'position': 3600},
 'signal/kw-rpc=4': {'result': ('sha256', 'f369bddcaca135af353d200ffb03ecc80d23a30680cadba1531869b05b2984b8'),
                     'summary': ('tuple', 'dict', 'list', 5,
                                 [('dict', 720, ('dict', [('start', 1264), ('size', 32), ('stop', 1296)])),
                                  ('dict', 1296, ('dict', [('start', 1840), ('size', 32), ('stop', 1872)])),
                                  ('dict', 1872, ('dict', [('start', 2416), ('size', 32), ('stop', 2448)])),
                                  ('dict', 2448, ('dict', [('start', 2992), ('size', 32), ('stop', 3024)])),
                                  ('dict', 3024, ('dict', [('start', 3568), ('size', 32), ('stop', 3600)]))]),
                     'requests': [('read', [720], ('dict', []), 0), ('read', [2304], ('dict', []), 720), ('read', [576], ('dict', []), 3024)],
                     'position': 3600},
 'signal/rpc=5': {'result': ('sha256', 'f369bddcaca135af353d200ffb03ecc80d23a30680cadba1531869b05b2984b8'),
                  'summary': ('tuple', 'dict', 'list', 5,
                              [('dict', 720, ('dict', [('start', 1264), ('size', 32), ('stop', 1296)])),
                               ('dict', 1296, ('dict', [('start', 1840), ('size', 32), ('stop', 1872)])),
                               ('dict', 1872, ('dict', [('start', 2416), ('size', 32), ('stop', 2448)])),
                               ('dict', 2448, ('dict', [('start', 2992), ('size', 32), ('stop', 3024)])),
                               ('dict', 3024, ('dict', [('start', 3568), ('size', 32), ('stop', 3600)]))]),
                  'requests': [('read', [720], ('dict', []), 0), ('read', [2880], ('dict', []), 720)],
                  'position': 3600},
 'signal/kw-rpc=5': {'result': ('sha256', 'f369bddcaca135af353d200ffb03ecc80d23a30680cadba1531869b05b2984b8'),
                     'summary': ('tuple', 'dict', 'list', 5,
                                 [('dict', 720, ('dict', [('start', 1264), ('size', 32), ('stop', 1296)])),
                                  ('dict', 1296, ('dict', [('start', 1840), ('size', 32), ('stop', 1872)])),
                                  ('dict', 1872, ('dict', [('start', 2416), ('size', 32), ('stop', 2448)])),
                                  ('dict', 2448, ('dict', [('start', 2992), ('size', 32), ('stop', 3024)])),
                                  ('dict', 3024, ('dict', [('start', 3568), ('size', 32), ('stop', 3600)]))]),
                     'requests': [('read', [720], ('dict', []), 0), ('read', [2880], ('dict', []), 720)],
                     'position': 3600},
 'signal/rpc=6': {'result': ('sha256', 'f369bddcaca135af353d200ffb03ecc80d23a30680cadba1531869b05b2984b8'),
                  'summary': ('tuple', 'dict', 'list', 5,
                              [('dict', 720, ('dict', [('start', 1264), ('size', 32), ('stop', 1296)])),
                               ('dict', 1296, ('dict', [('start', 1840), ('size', 32), ('stop', 1872)])),
                               ('dict', 1872, ('dict', [('start', 2416), ('size', 32), ('stop', 2448)])),
                               ('dict', 2448, ('dict', [('start', 2992), ('size', 32), ('stop', 3024)])),
                               ('dict', 3024, ('dict', [('start', 3568), ('size', 32), ('stop', 3600)]))]),
                  'requests': [('read', [720], ('dict', []), 0), ('read', [2880], ('dict', []), 720)],
                  'position': 3600},
 'signal/kw-rpc=6': {'result': ('sha256', 'f369bddcaca135af353d200ffb03ecc80d23a30680cadba1531869b05b2984b8'),
                     'summary': ('tuple', 'dict', 'list', 5,
                                 [('dict', 720, ('dict', [('start', 1264), ('size', 32), ('stop', 1296)])),
                                  ('dict', 1296, ('dict', [('start', 1840), ('size', 32), ('stop', 1872)])),
                                  ('dict', 1872, ('dict', [('start', 2416), ('size', 32), ('stop', 2448)])),
                                  ('dict', 2448, ('dict', [('start', 2992), ('size', 32), ('stop', 3024)])),
                                  ('dict', 3024, ('dict', [('start', 3568), ('size', 32), ('stop', 3600)]))]),
                     'requests': [('read', [720], ('dict', []), 0), ('read', [2880], ('dict', []), 720)],
                     'position': 3600},
 'signal/rpc=7': {'result': ('sha256', 'f369bddcaca135af353d200ffb03ecc80d23a30680cadba1531869b05b2984b8'),
                  'summary': ('tuple', 'dict', 'list', 5,
                              [('dict', 720, ('dict', [('start', 1264), ('size', 32), ('stop', 1296)])),
                               ('dict', 1296, ('dict', [('start', 1840), ('size', 32), ('stop', 1872)])),
                               ('dict', 1872, ('dict', [('start', 2416), ('size', 32), ('stop', 2448)])),
                               ('dict', 2448, ('dict', [('start', 2992), ('size', 32), ('stop', 3024)])),
                               ('dict', 3024, ('dict', [('start', 3568), ('size', 32), ('stop', 3600)]))]),
                  'requests': [('read', [720], ('dict', []), 0), ('read', [2880], ('dict', []), 720)],
                  'position': 3600},
 'signal/kw-rpc=7': {'result': ('sha256', 'f369bddcaca135af353d200ffb03ecc80d23a30680cadba1531869b05b2984b8'),
                     'summary': ('tuple', 'dict', 'list', 5,
                                 [('dict', 720, ('dict', [('start', 1264), ('size', 32), ('stop', 1296)])),
                                  ('dict', 1296, ('dict', [('start', 1840), ('size', 32), ('stop', 1872)])),
                                  ('dict', 1872, ('dict', [('start', 2416), ('size', 32), ('stop', 2448)])),
                                  ('dict', 2448, ('dict', [('start', 2992), ('size', 32), ('stop', 3024)])),
                                  ('dict', 3024, ('dict', [('start', 3568), ('size', 32), ('stop', 3600)]))]),
                     'requests': [('read', [720], ('dict', []), 0), ('read', [2880], ('dict', []), 720)],
                     'position': 3600},
 'signal/rpc=1024': {'result': ('sha256', 'f369bddcaca135af353d200ffb03ecc80d23a30680cadba1531869b05b2984b8'),
                     'summary': ('tuple', 'dict', 'list', 5,
                                 [('dict', 720, ('dict', [('start', 1264), ('size', 32), ('stop', 1296)])),
                                  ('dict', 1296, ('dict', [('start', 1840), ('size', 32), ('stop', 1872)])),
                                  ('dict', 1872, ('dict', [('start', 2416), ('size', 32), ('stop', 2448)])),
                                  ('dict', 2448, ('dict', [('start', 2992), ('size', 32), ('stop', 3024)])),
                                  ('dict', 3024, ('dict', [('start', 3568), ('size', 32), ('stop', 3600)]))]),
                     'requests': [('read', [720], ('dict', []), 0), ('read', [2880], ('dict', []), 720)],
                     'position': 3600},
 'signal/kw-rpc=1024': {'result': ('sha256', 'f369bddcaca135af353d200ffb03ecc80d23a30680cadba1531869b05b2984b8'),
                        'summary': ('tuple', 'dict', 'list', 5,
                                    [('dict', 720, ('dict', [('start', 1264), ('size', 32), ('stop', 1296)])),
                                     ('dict', 1296, ('dict', [('start', 1840), ('size', 32), ('stop', 1872)])),
                                     ('dict', 1872, ('dict', [('start', 2416), ('size', 32), ('stop', 2448)])),
                                     ('dict', 2448, ('dict', [('start', 2992), ('size', 32), ('stop', 3024)])),
                                     ('dict', 3024, ('dict', [('start', 3568), ('size', 32), ('stop', 3600)]))]),
                        'requests': [('read', [720], ('dict', []), 0), ('read', [2880], ('dict', []), 720)],
                        'position': 3600},
 'signal/rpc=1099511627776': {'result': ('sha256', 'f369bddcaca135af353d200ffb03ecc80d23a30680cadba1531869b05b2984b8'),
                              'summary': ('tuple', 'dict', 'list', 5,
                                          [('dict', 720, ('dict', [('start', 1264), ('size', 32), ('stop', 1296)])),
                                           ('dict', 1296, ('dict', [('start', 1840), ('size', 32), ('stop', 1872)])),
                                           ('dict', 1872, ('dict', [('start', 2416), ('size', 32), ('stop', 2448)])),
                                           ('dict', 2448, ('dict', [('start', 2992), ('size', 32), ('stop', 3024)])),
                                           ('dict', 3024, ('dict', [('start', 3568), ('size', 32), ('stop', 3600)]))]),
                              'requests': [('read', [720], ('dict', []), 0), ('read', [2880], ('dict', []), 720)],
                              'position': 3600},
 'signal/kw-rpc=1099511627776': {'result': ('sha256', 'f369bddcaca135af353d200ffb03ecc80d23a30680cadba1531869b05b2984b8'),
                                 'summary': ('tuple', 'dict', 'list', 5,
                                             [('dict', 720, ('dict', [('start', 1264), ('size', 32), ('stop', 1296)])),
                                              ('dict', 1296, ('dict', [('start', 1840), ('size', 32), ('stop', 1872)])),
                                              ('dict', 1872, ('dict', [('start', 2416), ('size', 32), ('stop', 2448)])),
                                              ('dict', 2448, ('dict', [('start', 2992), ('size', 32), ('stop', 3024)])),
                                              ('dict', 3024, ('dict', [('start', 3568), ('size', 32), ('stop', 3600)]))]),
                                 'requests': [('read', [720], ('dict', []), 0), ('read', [2880], ('dict', []), 720)],
                                 'position': 3600},
 'processed/full/rpc=3': {'result': ('returned',
                                     (('dict',
                                       [('preamble',
                                         ('dict',
                                          [('record_sequence_number', 1), ('first_record_subtype', 50), ('record_type', 192), ('second_record_subtype', 18),
                                           ('third_record_subtype', 20), ('record_length', 720)])),
                                        ('ascii_ebcdic_flag', 'A'), ('blanks1', ''), ('format_control_document_id', 'CEOS-SAR'),
                                        ('format_control_document_revision_level', 'A'), ('file_design_descriptor_revision_letter', 'A'),
                                        ('software_release_and_revision_number', '002.011'), ('file_number', 3), ('file_id', 'BSAR IMOP'),
                                        ('record_sequence_and_location_type_flag', 'FSEQ'), ('location_sequence_number', 1),
                                        ('field_length_of_sequence_number', 4), ('record_code_and_location_type_flag', 'FTYP'), ('record_code_location', 5),
                                        ('record_code_field_length', 4), ('record_length_and_location_type_flag', 'FLGT'), ('record_length_location', 9),
                                        ('record_length_field_length', 4), ('reserved1', ''), ('reserved2', ''), ('reserved3', ''), ('reserved4', ''),
                                        ('blanks6', ''), ('number_of_sar_data_records', 4), ('sar_data_record_length', 198), ('reserved5', ''),
                                        ('sample_group_data',
                                         ('dict',
                                          [('bit_length_per_sample', 16), ('number_of_samples_per_data_group', 1), ('number_of_bytes_per_data_group', 2),
                                           ('justification_and_order_of_samples_within_data_group', '')])),
                                        ('sar_related_data_in_the_record',
                                         ('dict',
                                          [('number_of_sar_channels', 1), ('number_of_lines_per_dataset', 4), ('number_of_left_border_pixels_per_line', -1),
                                           ('number_of_data_groups_per_line', 3), ('number_of_right_border_pixels_per_line', -1),
                                           ('number_of_top_border_lines', -1), ('number_of_bottom_border_lines', -1), ('interleaving_id', 'BSQ')])),
                                        ('record_data_in_the_file',
                                         ('dict',
                                          [('number_of_physical_records_per_line', 1), ('number_of_physical_records_per_multichannel_line_in_this_file', 1),
                                           ('number_of_bytes_of_prefix_data_per_record', 192), ('number_of_bytes_of_sar_data_per_record', 6),
                                           ('number_of_bytes_of_suffix_data_per_record', -1), ('prefix_suffix_repeat_flag', '')])),
                                        ('prefix_suffix_data_locators',
                                         ('dict',
                                          [('sample_data_line_number_locator', ''), ('sar_channel_number_locator', ''), ('time_of_sar_data_line_locator', ''),
                                           ('left_fill_count_locator', ''), ('right_fill_count_locator', ''), ('pad_pixels_present_indicator', ''),
                                           ('blanks', ''), ('sar_data_line_quality_code_locator', ''), ('calibration_information_field_locator', ''),
                                           ('gain_values_field_locator', ''), ('bias_values_field_locator', ''),
                                           ('sar_data_format_type_indicator', 'UNSIGNED INTEGER*2'), ('sar_data_format_type_code', 'IU2'),
                                           ('number_of_left_fill_bits_within_pixel', 0), ('number_of_right_fill_bits_within_pixel', 0),
                                           ('maximum_data_range_of_pixel', -1), ('number_of_burst_data', -1), ('number_of_lines_per_burst', -1)])),
                                        ('scansar_burst_data_information', ('dict', [('number_of_overlap_lines_with_adjacent_bursts', -1), ('blanks', '')]))]),
                                      [('dict',
                                        [('record_start', 720),
                                         ('preamble',
                                          ('dict',
                                           [('record_sequence_number', 1), ('first_record_subtype', 50), ('record_type', 11), ('second_record_subtype', 18),
                                            ('third_record_subtype', 20), ('record_length', 198)])),
                                         ('sar_image_data_line_number', 1), ('sar_image_data_record_index', 1), ('actual_count_of_left_fill_pixels', 38),
                                         ('actual_count_of_data_pixels', 45), ('actual_count_of_right_fill_pixels', 52), ('sensor_parameters_update_flag', 59),
                                         ('sensor_acquisition_date', ('datetime', '2020-02-18T00:20:34.578000')),
                                         ('sar_channel_id', ('subclass', 'EnumInteger', 0)), ('sar_channel_code', ('subclass', 'EnumInteger', 87)),
                                         ('transmitted_pulse_polarization', 'horizontal'), ('received_pulse_polarization', ('subclass', 'EnumInteger', 94)),
                                         ('prf', (4, ('dict', [('units', 'mHz')]))), ('scan_id', 11),
                                         ('slant_range_to_first_pixel', (18, ('dict', [('units', 'm')]))),
                                         ('slant_range_to_mid_pixel', (25, ('dict', [('units', 'm')]))),
                                         ('slant_range_to_last_pixel', (32, ('dict', [('units', 'm')]))),
                                         ('doppler_centroid_value_at_first_pixel', (0.039, ('dict', [('units', 'Hz')]))),
                                         ('doppler_centroid_value_at_mid_pixel', (0.046, ('dict', [('units', 'Hz')]))),
                                         ('doppler_centroid_value_at_last_pixel', (0.053, ('dict', [('units', 'Hz')]))),
                                         ('azimuth_fm_rate_of_first_pixel', (60, ('dict', [('units', 'Hz/ms')]))),
                                         ('azimuth_fm_rate_of_mid_pixel', (67, ('dict', [('units', 'Hz/ms')]))),
                                         ('azimuth_fm_rate_of_last_pixel', (74, ('dict', [('units', 'Hz/ms')]))),
                                         ('look_angle_of_nadir', (8.099999999999999e-05, ('dict', [('units', 'deg')]))),
                                         ('azimuth_squint_angle', (8.8e-05, ('dict', [('units', 'deg')]))),
                                         ('blanks1', b'_\x00\x00\x00\x05\x00\x00\x00\x0c\x00\x00\x00\x13\x00\x00\x00\x1a'),
                                         ('geographic_reference_parameter_update_flag', 33),
                                         ('latitude_of_first_pixel', (3.9999999999999996e-05, ('dict', [('units', 'deg')]))),
                                         ('latitude_of_center_pixel', (4.7e-05, ('dict', [('units', 'deg')]))),
                                         ('latitude_of_last_pixel', (5.4e-05, ('dict', [('units', 'deg')]))),
                                         ('longitude_of_first_pixel', (6.1e-05, ('dict', [('units', 'deg')]))),
                                         ('longitude_of_center_pixel', (6.8e-05, ('dict', [('units', 'deg')]))),
                                         ('longitude_of_last_pixel', (7.5e-05, ('dict', [('units', 'deg')]))),
                                         ('northing_of_first_pixel', (82, ('dict', [('units', 'm')]))), ('blanks2', b'Y'),
                                         ('northing_of_last_pixel', (96, ('dict', [('units', 'm')]))),
                                         ('easting_of_first_pixel', (6, ('dict', [('units', 'm')]))), ('blanks3', b'\r'),
                                         ('easting_of_last_pixel', (20, ('dict', [('units', 'm')]))), ('line_heading', (2.7e-05, ('dict', [('units', 'deg')]))),
                                         ('blanks4', b'"\x00\x00\x00)'), ('data', ('dict', [('start', 912), ('size', 6), ('stop', 918)]))]),
                                       ('dict',
                                        [('record_start', 918),
                                         ('preamble',
                                          ('dict',
                                           [('record_sequence_number', 2), ('first_record_subtype', 50), ('record_type', 11), ('second_record_subtype', 18),
                                            ('third_record_subtype', 20), ('record_length', 198)])),
                                         ('sar_image_data_line_number', 2), ('sar_image_data_record_index', 1), ('actual_count_of_left_fill_pixels', 51),
                                         ('actual_count_of_data_pixels', 58), ('actual_count_of_right_fill_pixels', 65), ('sensor_parameters_update_flag', 72),
                                         ('sensor_acquisition_date', ('datetime', '2020-03-26T00:41:09.145000')),
                                         ('sar_channel_id', ('subclass', 'EnumInteger', 0)), ('sar_channel_code', 'X'),
                                         ('transmitted_pulse_polarization', 'horizontal'), ('received_pulse_polarization', ('subclass', 'EnumInteger', 10)),
                                         ('prf', (17, ('dict', [('units', 'mHz')]))), ('scan_id', 24),
                                         ('slant_range_to_first_pixel', (31, ('dict', [('units', 'm')]))),
                                         ('slant_range_to_mid_pixel', (38, ('dict', [('units', 'm')]))),
                                         ('slant_range_to_last_pixel', (45, ('dict', [('units', 'm')]))),
                                         ('doppler_centroid_value_at_first_pixel', (0.052000000000000005, ('dict', [('units', 'Hz')]))),
                                         ('doppler_centroid_value_at_mid_pixel', (0.059000000000000004, ('dict', [('units', 'Hz')]))),
                                         ('doppler_centroid_value_at_last_pixel', (0.066, ('dict', [('units', 'Hz')]))),
                                         ('azimuth_fm_rate_of_first_pixel', (73, ('dict', [('units', 'Hz/ms')]))),
                                         ('azimuth_fm_rate_of_mid_pixel', (80, ('dict', [('units', 'Hz/ms')]))),
                                         ('azimuth_fm_rate_of_last_pixel', (87, ('dict', [('units', 'Hz/ms')]))),
                                         ('look_angle_of_nadir', (9.4e-05, ('dict', [('units', 'deg')]))),
                                         ('azimuth_squint_angle', (4e-06, ('dict', [('units', 'deg')]))),
                                         ('blanks1', b"\x0b\x00\x00\x00\x12\x00\x00\x00\x19\x00\x00\x00 \x00\x00\x00'"),
                                         ('geographic_reference_parameter_update_flag', 46),
                                         ('latitude_of_first_pixel', (5.3e-05, ('dict', [('units', 'deg')]))),
                                         ('latitude_of_center_pixel', (5.9999999999999995e-05, ('dict', [('units', 'deg')]))),
                                         ('latitude_of_last_pixel', (6.7e-05, ('dict', [('units', 'deg')]))),
                                         ('longitude_of_first_pixel', (7.4e-05, ('dict', [('units', 'deg')]))),
                                         ('longitude_of_center_pixel', (8.099999999999999e-05, ('dict', [('units', 'deg')]))),
                                         ('longitude_of_last_pixel', (8.8e-05, ('dict', [('units', 'deg')]))),
                                         ('northing_of_first_pixel', (95, ('dict', [('units', 'm')]))), ('blanks2', b'\x05'),
                                         ('northing_of_last_pixel', (12, ('dict', [('units', 'm')]))),
                                         ('easting_of_first_pixel', (19, ('dict', [('units', 'm')]))), ('blanks3', b'\x1a'),
                                         ('easting_of_last_pixel', (33, ('dict', [('units', 'm')]))),
                                         ('line_heading', (3.9999999999999996e-05, ('dict', [('units', 'deg')]))), ('blanks4', b'/\x00\x00\x006'),
                                         ('data', ('dict', [('start', 1110), ('size', 6), ('stop', 1116)]))]),
                                       ('dict',
                                        [('record_start', 1116),
                                         ('preamble',
                                          ('dict',
                                           [('record_sequence_number', 3), ('first_record_subtype', 50), ('record_type', 11), ('second_record_subtype', 18),
                                            ('third_record_subtype', 20), ('record_length', 198)])),
                                         ('sar_image_data_line_number', 3), ('sar_image_data_record_index', 1), ('actual_count_of_left_fill_pixels', 64),
                                         ('actual_count_of_data_pixels', 71), ('actual_count_of_right_fill_pixels', 78), ('sensor_parameters_update_flag', 85),
                                         ('sensor_acquisition_date', ('datetime', '2020-05-02T01:01:43.712000')),
                                         ('sar_channel_id', ('subclass', 'EnumInteger', 0)), ('sar_channel_code', ('subclass', 'EnumInteger', 16)),
                                         ('transmitted_pulse_polarization', 'horizontal'), ('received_pulse_polarization', ('subclass', 'EnumInteger', 23)),
                                         ('prf', (30, ('dict', [('units', 'mHz')]))), ('scan_id', 37),
                                         ('slant_range_to_first_pixel', (44, ('dict', [('units', 'm')]))),
                                         ('slant_range_to_mid_pixel', (51, ('dict', [('units', 'm')]))),
                                         ('slant_range_to_last_pixel', (58, ('dict', [('units', 'm')]))),
                                         ('doppler_centroid_value_at_first_pixel', (0.065, ('dict', [('units', 'Hz')]))),
                                         ('doppler_centroid_value_at_mid_pixel', (0.07200000000000001, ('dict', [('units', 'Hz')]))),
                                         ('doppler_centroid_value_at_last_pixel', (0.079, ('dict', [('units', 'Hz')]))),
                                         ('azimuth_fm_rate_of_first_pixel', (86, ('dict', [('units', 'Hz/ms')]))),
                                         ('azimuth_fm_rate_of_mid_pixel', (93, ('dict', [('units', 'Hz/ms')]))),
                                         ('azimuth_fm_rate_of_last_pixel', (3, ('dict', [('units', 'Hz/ms')]))),
                                         ('look_angle_of_nadir', (9.999999999999999e-06, ('dict', [('units', 'deg')]))),
                                         ('azimuth_squint_angle', (1.7e-05, ('dict', [('units', 'deg')]))),
                                         ('blanks1', b'\x18\x00\x00\x00\x1f\x00\x00\x00&\x00\x00\x00-\x00\x00\x004'),
                                         ('geographic_reference_parameter_update_flag', 59),
                                         ('latitude_of_first_pixel', (6.599999999999999e-05, ('dict', [('units', 'deg')]))),
                                         ('latitude_of_center_pixel', (7.3e-05, ('dict', [('units', 'deg')]))),
                                         ('latitude_of_last_pixel', (7.999999999999999e-05, ('dict', [('units', 'deg')]))),
                                         ('longitude_of_first_pixel', (8.7e-05, ('dict', [('units', 'deg')]))),
                                         ('longitude_of_center_pixel', (9.4e-05, ('dict', [('units', 'deg')]))),
                                         ('longitude_of_last_pixel', (4e-06, ('dict', [('units', 'deg')]))),
                                         ('northing_of_first_pixel', (11, ('dict', [('units', 'm')]))), ('blanks2', b'\x12'),
                                         ('northing_of_last_pixel', (25, ('dict', [('units', 'm')]))),
                                         ('easting_of_first_pixel', (32, ('dict', [('units', 'm')]))), ('blanks3', b"'"),
                                         ('easting_of_last_pixel', (46, ('dict', [('units', 'm')]))), ('line_heading', (5.3e-05, ('dict', [('units', 'deg')]))),
                                         ('blanks4', b'<\x00\x00\x00C'), ('data', ('dict', [('start', 1308), ('size', 6), ('stop', 1314)]))]),
                                       ('dict',
                                        [('record_start', 1314),
                                         ('preamble',
                                          ('dict',
                                           [('record_sequence_number', 4), ('first_record_subtype', 50), ('record_type', 11), ('second_record_subtype', 18),
                                            ('third_record_subtype', 20), ('record_length', 198)])),
                                         ('sar_image_data_line_number', 4), ('sar_image_data_record_index', 1), ('actual_count_of_left_fill_pixels', 77),
                                         ('actual_count_of_data_pixels', 84), ('actual_count_of_right_fill_pixels', 91), ('sensor_parameters_update_flag', 1),
                                         ('sensor_acquisition_date', ('datetime', '2020-06-08T01:22:18.279000')),
                                         ('sar_channel_id', ('subclass', 'EnumInteger', 0)), ('sar_channel_code', ('subclass', 'EnumInteger', 29)),
                                         ('transmitted_pulse_polarization', 'horizontal'), ('received_pulse_polarization', ('subclass', 'EnumInteger', 36)),
                                         ('prf', (43, ('dict', [('units', 'mHz')]))), ('scan_id', 50),
                                         ('slant_range_to_first_pixel', (57, ('dict', [('units', 'm')]))),
                                         ('slant_range_to_mid_pixel', (64, ('dict', [('units', 'm')]))),
                                         ('slant_range_to_last_pixel', (71, ('dict', [('units', 'm')]))),
                                         ('doppler_centroid_value_at_first_pixel', (0.078, ('dict', [('units', 'Hz')]))),
                                         ('doppler_centroid_value_at_mid_pixel', (0.085, ('dict', [('units', 'Hz')]))),
                                         ('doppler_centroid_value_at_last_pixel', (0.092, ('dict', [('units', 'Hz')]))),
                                         ('azimuth_fm_rate_of_first_pixel', (2, ('dict', [('units', 'Hz/ms')]))),
                                         ('azimuth_fm_rate_of_mid_pixel', (9, ('dict', [('units', 'Hz/ms')]))),
                                         ('azimuth_fm_rate_of_last_pixel', (16, ('dict', [('units', 'Hz/ms')]))),
                                         ('look_angle_of_nadir', (2.3e-05, ('dict', [('units', 'deg')]))),
                                         ('azimuth_squint_angle', (2.9999999999999997e-05, ('dict', [('units', 'deg')]))),
                                         ('blanks1', b'%\x00\x00\x00,\x00\x00\x003\x00\x00\x00:\x00\x00\x00A'),
                                         ('geographic_reference_parameter_update_flag', 72),
                                         ('latitude_of_first_pixel', (7.9e-05, ('dict', [('units', 'deg')]))),
                                         ('latitude_of_center_pixel', (8.599999999999999e-05, ('dict', [('units', 'deg')]))),
                                         ('latitude_of_last_pixel', (9.3e-05, ('dict', [('units', 'deg')]))),
                                         ('longitude_of_first_pixel', (3e-06, ('dict', [('units', 'deg')]))),
                                         ('longitude_of_center_pixel', (9.999999999999999e-06, ('dict', [('units', 'deg')]))),
                                         ('longitude_of_last_pixel', (1.7e-05, ('dict', [('units', 'deg')]))),
                                         ('northing_of_first_pixel', (24, ('dict', [('units', 'm')]))), ('blanks2', b'\x1f'),
                                         ('northing_of_last_pixel', (38, ('dict', [('units', 'm')]))),
                                         ('easting_of_first_pixel', (45, ('dict', [('units', 'm')]))), ('blanks3', b'4'),
                                         ('easting_of_last_pixel', (59, ('dict', [('units', 'm')]))),
                                         ('line_heading', (6.599999999999999e-05, ('dict', [('units', 'deg')]))), ('blanks4', b'I\x00\x00\x00P'),
                                         ('data', ('dict', [('start', 1506), ('size', 6), ('stop', 1512)]))])])),
                          'summary': ('tuple', 'dict', 'list', 4,
                                      [('dict', 720, ('dict', [('start', 912), ('size', 6), ('stop', 918)])),
                                       ('dict', 918, ('dict', [('start', 1110), ('size', 6), ('stop', 1116)])),
                                       ('dict', 1116, ('dict', [('start', 1308), ('size', 6), ('stop', 1314)])),
                                       ('dict', 1314, ('dict', [('start', 1506), ('size', 6), ('stop', 1512)]))]),
                          'requests': [('read', [720], ('dict', []), 0), ('read', [594], ('dict', []), 720), ('read', [198], ('dict', []), 1314)],
                          'position': 1512},
 'processed/rpc=1': {'result': ('sha256', '8e4ec055a853c7089120a4819289e3368602e860ad7c1dc323b8f107e656ba47'),
                     'summary': ('tuple', 'dict', 'list', 4,
                                 [('dict', 720, ('dict', [('start', 912), ('size', 6), ('stop', 918)])),
                                  ('dict', 918, ('dict', [('start', 1110), ('size', 6), ('stop', 1116)])),
                                  ('dict', 1116, ('dict', [('start', 1308), ('size', 6), ('stop', 1314)])),
                                  ('dict', 1314, ('dict', [('start', 1506), ('size', 6), ('stop', 1512)]))]),
                     'requests': [('read', [720], ('dict', []), 0), ('read', [198], ('dict', []), 720), ('read', [198], ('dict', []), 918),
                                  ('read', [198], ('dict', []), 1116), ('read', [198], ('dict', []), 1314)],
                     'position': 1512},
 'processed/rpc=2': {'result': ('sha256', '8e4ec055a853c7089120a4819289e3368602e860ad7c1dc323b8f107e656ba47'),
                     'summary': ('tuple', 'dict', 'list', 4,
                                 [('dict', 720, ('dict', [('start', 912), ('size', 6), ('stop', 918)])),
                                  ('dict', 918, ('dict', [('start', 1110), ('size', 6), ('stop', 1116)])),
                                  ('dict', 1116, ('dict', [('start', 1308), ('size', 6), ('stop', 1314)])),
                                  ('dict', 1314, ('dict', [('start', 1506), ('size', 6), ('stop', 1512)]))]),
                     'requests': [('read', [720], ('dict', []), 0), ('read', [396], ('dict', []), 720), ('read', [396], ('dict', []), 1116)],
                     'position': 1512},
 'processed/rpc=3': {'result': ('sha256', '8e4ec055a853c7089120a4819289e3368602e860ad7c1dc323b8f107e656ba47'),
                     'summary': ('tuple', 'dict', 'list', 4,
                                 [('dict', 720, ('dict', [('start', 912), ('size', 6), ('stop', 918)])),
                                  ('dict', 918, ('dict', [('start', 1110), ('size', 6), ('stop', 1116)])),
                                  ('dict', 1116, ('dict', [('start', 1308), ('size', 6), ('stop', 1314)])),
                                  ('dict', 1314, ('dict', [('start', 1506), ('size', 6), ('stop', 1512)]))]),
                     'requests': [('read', [720], ('dict', []), 0), ('read', [594], ('dict', []), 720), ('read', [198], ('dict', []), 1314)],
                     'position': 1512},
 'processed/rpc=4': {'result': ('sha256', '8e4ec055a853c7089120a4819289e3368602e860ad7c1dc323b8f107e656ba47'),
                     'summary': ('tuple', 'dict', 'list', 4,
                                 [('dict', 720, ('dict', [('start', 912), ('size', 6), ('stop', 918)])),
                                  ('dict', 918, ('dict', [('start', 1110), ('size', 6), ('stop', 1116)])),
                                  ('dict', 1116, ('dict', [('start', 1308), ('size', 6), ('stop', 1314)])),
                                  ('dict', 1314, ('dict', [('start', 1506), ('size', 6), ('stop', 1512)]))]),
                     'requests': [('read', [720], ('dict', []), 0), ('read', [792], ('dict', []), 720)],
                     'position': 1512},
 'processed/rpc=5': {'result': ('sha256', '8e4ec055a853c7089120a4819289e3368602e860ad7c1dc323b8f107e656ba47'),
                     'summary': ('tuple', 'dict', 'list', 4,
                                 [('dict', 720, ('dict', [('start', 912), ('size', 6), ('stop', 918)])),
                                  ('dict', 918, ('dict', [('start', 1110), ('size', 6), ('stop', 1116)])),
                                  ('dict', 1116, ('dict', [('start', 1308), ('size', 6), ('stop', 1314)])),
                                  ('dict', 1314, ('dict', [('start', 1506), ('size', 6), ('stop', 1512)]))]),
                     'requests': [('read', [720], ('dict', []), 0), ('read', [792], ('dict', []), 720)],
                     'position': 1512},
 'processed/rpc=1024': {'result': ('sha256', '8e4ec055a853c7089120a4819289e3368602e860ad7c1dc323b8f107e656ba47'),
                        'summary': ('tuple', 'dict', 'list', 4,
                                    [('dict', 720, ('dict', [('start', 912), ('size', 6), ('stop', 918)])),
                                     ('dict', 918, ('dict', [('start', 1110), ('size', 6), ('stop', 1116)])),
                                     ('dict', 1116, ('dict', [('start', 1308), ('size', 6), ('stop', 1314)])),
                                     ('dict', 1314, ('dict', [('start', 1506), ('size', 6), ('stop', 1512)]))]),
                        'requests': [('read', [720], ('dict', []), 0), ('read', [792], ('dict', []), 720)],
                        'position': 1512},
 'empty/rpc=1': {'result': ('sha256', '901574771918b6a6ba998bd09ed37b2c65d657440dd8492229540bf02462e8bb'),
                 'summary': ('tuple', 'dict', 'list', 0, []),
                 'requests': [('read', [720], ('dict', []), 0)],
                 'position': 720},
 'single/rpc=1': {'result': ('sha256', '63a65952a0c9b56f0b6453e37a76f751b2cedd64ec6da2b9ce768b5b581e7dfe'),
                  'summary': ('tuple', 'dict', 'list', 1, [('dict', 720, ('dict', [('start', 1264), ('size', 4), ('stop', 1268)]))]),
                  'requests': [('read', [720], ('dict', []), 0), ('read', [548], ('dict', []), 720)],
                  'position': 1268},
 'empty/rpc=2': {'result': ('returned',
                            (('dict',
                              [('preamble',
                                ('dict',
                                 [('record_sequence_number', 1), ('first_record_subtype', 50), ('record_type', 192), ('second_record_subtype', 18),
                                  ('third_record_subtype', 20), ('record_length', 720)])),
                               ('ascii_ebcdic_flag', 'A'), ('blanks1', ''), ('format_control_document_id', 'CEOS-SAR'),
                               ('format_control_document_revision_level', 'A'), ('file_design_descriptor_revision_letter', 'A'),
                               ('software_release_and_revision_number', '002.011'), ('file_number', 3), ('file_id', 'BSAR IMOP'),
                               ('record_sequence_and_location_type_flag', 'FSEQ'), ('location_sequence_number', 1), ('field_length_of_sequence_number', 4),
                               ('record_code_and_location_type_flag', 'FTYP'), ('record_code_location', 5), ('record_code_field_length', 4),
                               ('record_length_and_location_type_flag', 'FLGT'), ('record_length_location', 9), ('record_length_field_length', 4),
                               ('reserved1', ''), ('reserved2', ''), ('reserved3', ''), ('reserved4', ''), ('blanks6', ''), ('number_of_sar_data_records', 0),
                               ('sar_data_record_length', 192), ('reserved5', ''),
                               ('sample_group_data',
                                ('dict',
                                 [('bit_length_per_sample', 16), ('number_of_samples_per_data_group', 1), ('number_of_bytes_per_data_group', 2),
                                  ('justification_and_order_of_samples_within_data_group', '')])),
                               ('sar_related_data_in_the_record',
                                ('dict',
                                 [('number_of_sar_channels', 1), ('number_of_lines_per_dataset', 0), ('number_of_left_border_pixels_per_line', -1),
                                  ('number_of_data_groups_per_line', 3), ('number_of_right_border_pixels_per_line', -1), ('number_of_top_border_lines', -1),
                                  ('number_of_bottom_border_lines', -1), ('interleaving_id', 'BSQ')])),
                               ('record_data_in_the_file',
                                ('dict',
                                 [('number_of_physical_records_per_line', 1), ('number_of_physical_records_per_multichannel_line_in_this_file', 1),
                                  ('number_of_bytes_of_prefix_data_per_record', 192), ('number_of_bytes_of_sar_data_per_record', 0),
                                  ('number_of_bytes_of_suffix_data_per_record', -1), ('prefix_suffix_repeat_flag', '')])),
                               ('prefix_suffix_data_locators',
                                ('dict',
                                 [('sample_data_line_number_locator', ''), ('sar_channel_number_locator', ''), ('time_of_sar_data_line_locator', ''),
                                  ('left_fill_count_locator', ''), ('right_fill_count_locator', ''), ('pad_pixels_present_indicator', ''), ('blanks', ''),
                                  ('sar_data_line_quality_code_locator', ''), ('calibration_information_field_locator', ''), ('gain_values_field_locator', ''),
                                  ('bias_values_field_locator', ''), ('sar_data_format_type_indicator', 'UNSIGNED INTEGER*2'),
                                  ('sar_data_format_type_code', 'IU2'), ('number_of_left_fill_bits_within_pixel', 0),
                                  ('number_of_right_fill_bits_within_pixel', 0), ('maximum_data_range_of_pixel', -1), ('number_of_burst_data', -1),
                                  ('number_of_lines_per_burst', -1)])),
                               ('scansar_burst_data_information', ('dict', [('number_of_overlap_lines_with_adjacent_bursts', -1), ('blanks', '')]))]),
                             [])),
                 'summary': ('tuple', 'dict', 'list', 0, []),
                 'requests': [('read', [720], ('dict', []), 0)],
                 'position': 720},
 'single/rpc=2': {'result': ('sha256', '63a65952a0c9b56f0b6453e37a76f751b2cedd64ec6da2b9ce768b5b581e7dfe'),
                  'summary': ('tuple', 'dict', 'list', 1, [('dict', 720, ('dict', [('start', 1264), ('size', 4), ('stop', 1268)]))]),
                  'requests': [('read', [720], ('dict', []), 0), ('read', [548], ('dict', []), 720)],
                  'position': 1268},
 'empty/rpc=1024': {'result': ('sha256', '901574771918b6a6ba998bd09ed37b2c65d657440dd8492229540bf02462e8bb'),
                    'summary': ('tuple', 'dict', 'list', 0, []),
                    'requests': [('read', [720], ('dict', []), 0)],
                    'position': 720},
 'single/rpc=1024': {'result': ('sha256', '63a65952a0c9b56f0b6453e37a76f751b2cedd64ec6da2b9ce768b5b581e7dfe'),
                     'summary': ('tuple', 'dict', 'list', 1, [('dict', 720, ('dict', [('start', 1264), ('size', 4), ('stop', 1268)]))]),
                     'requests': [('read', [720], ('dict', []), 0), ('read', [548], ('dict', []), 720)],
                     'position': 1268},
 'signal/odd-rpc=None': {'result': ('raised', 'builtins', 'TypeError', "unsupported operand type(s) for /: 'int' and 'NoneType'"),
                         'summary': None,
                         'requests': [('read', [720], ('dict', []), 0)],
                         'position': 720},
 'empty/odd-rpc=None': {'result': ('raised', 'builtins', 'TypeError', "unsupported operand type(s) for /: 'int' and 'NoneType'"),
                        'summary': None,
                        'requests': [('read', [720], ('dict', []), 0)],
                        'position': 720},
 'signal/odd-rpc=0': {'result': ('raised', 'builtins', 'ZeroDivisionError', 'division by zero'),
                      'summary': None,
                      'requests': [('read', [720], ('dict', []), 0)],
                      'position': 720},
 'empty/odd-rpc=0': {'result': ('raised', 'builtins', 'ZeroDivisionError', 'division by zero'),
                     'summary': None,
                     'requests': [('read', [720], ('dict', []), 0)],
                     'position': 720},
 'signal/odd-rpc=-1': {'result': ('sha256', 'e5e021c000acc3ac129e8b3e1d79164398811a5d36a454a7a907e73599697888'),
                       'summary': ('tuple', 'dict', 'list', 0, []),
                       'requests': [('read', [720], ('dict', []), 0)],
                       'position': 720},
 'empty/odd-rpc=-1': {'result': ('sha256', '901574771918b6a6ba998bd09ed37b2c65d657440dd8492229540bf02462e8bb'),
                      'summary': ('tuple', 'dict', 'list', 0, []),
                      'requests': [('read', [720], ('dict', []), 0)],
                      'position': 720},
 'signal/odd-rpc=-2': {'result': ('sha256', 'e5e021c000acc3ac129e8b3e1d79164398811a5d36a454a7a907e73599697888'),
                       'summary': ('tuple', 'dict', 'list', 0, []),
                       'requests': [('read', [720], ('dict', []), 0)],
                       'position': 720},
 'empty/odd-rpc=-2': {'result': ('sha256', '901574771918b6a6ba998bd09ed37b2c65d657440dd8492229540bf02462e8bb'),
                      'summary': ('tuple', 'dict', 'list', 0, []),
                      'requests': [('read', [720], ('dict', []), 0)],
                      'position': 720},
 'signal/odd-rpc=-7': {'result': ('sha256', 'e5e021c000acc3ac129e8b3e1d79164398811a5d36a454a7a907e73599697888'),
                       'summary': ('tuple', 'dict', 'list', 0, []),
                       'requests': [('read', [720], ('dict', []), 0)],
                       'position': 720},
 'empty/odd-rpc=-7': {'result': ('sha256', '901574771918b6a6ba998bd09ed37b2c65d657440dd8492229540bf02462e8bb'),
                      'summary': ('tuple', 'dict', 'list', 0, []),
                      'requests': [('read', [720], ('dict', []), 0)],
                      'position': 720},
 'signal/odd-rpc=2.0': {'result': ('raised', 'builtins', 'TypeError', "argument should be integer or None, not 'float'"),
                        'summary': None,
                        'requests': [('read', [720], ('dict', []), 0), ('read', [1152.0], ('dict', []), 720)],
                        'position': 720},
 'empty/odd-rpc=2.0': {'result': ('sha256', '901574771918b6a6ba998bd09ed37b2c65d657440dd8492229540bf02462e8bb'),
                       'summary': ('tuple', 'dict', 'list', 0, []),
                       'requests': [('read', [720], ('dict', []), 0)],
                       'position': 720},
 'signal/odd-rpc=2.5': {'result': ('raised', 'builtins', 'TypeError', "argument should be integer or None, not 'float'"),
                        'summary': None,
                        'requests': [('read', [720], ('dict', []), 0), ('read', [1440.0], ('dict', []), 720)],
                        'position': 720},
 'empty/odd-rpc=2.5': {'result': ('sha256', '901574771918b6a6ba998bd09ed37b2c65d657440dd8492229540bf02462e8bb'),
                       'summary': ('tuple', 'dict', 'list', 0, []),
                       'requests': [('read', [720], ('dict', []), 0)],
                       'position': 720},
 'signal/odd-rpc=0.5': {'result': ('raised', 'builtins', 'TypeError', "argument should be integer or None, not 'float'"),
                        'summary': None,
                        'requests': [('read', [720], ('dict', []), 0), ('read', [288.0], ('dict', []), 720)],
                        'position': 720},
 'empty/odd-rpc=0.5': {'result': ('sha256', '901574771918b6a6ba998bd09ed37b2c65d657440dd8492229540bf02462e8bb'),
                       'summary': ('tuple', 'dict', 'list', 0, []),
                       'requests': [('read', [720], ('dict', []), 0)],
                       'position': 720},
 "signal/odd-rpc='auto'": {'result': ('raised', 'builtins', 'TypeError', "unsupported operand type(s) for /: 'int' and 'str'"),
                           'summary': None,
                           'requests': [('read', [720], ('dict', []), 0)],
                           'position': 720},
 "empty/odd-rpc='auto'": {'result': ('raised', 'builtins', 'TypeError', "unsupported operand type(s) for /: 'int' and 'str'"),
                          'summary': None,
                          'requests': [('read', [720], ('dict', []), 0)],
                          'position': 720},
 "signal/odd-rpc='2'": {'result': ('raised', 'builtins', 'TypeError', "unsupported operand type(s) for /: 'int' and 'str'"),
                        'summary': None,
                        'requests': [('read', [720], ('dict', []), 0)],
                        'position': 720},
 "empty/odd-rpc='2'": {'result': ('raised', 'builtins', 'TypeError', "unsupported operand type(s) for /: 'int' and 'str'"),
                       'summary': None,
                       'requests': [('read', [720], ('dict', []), 0)],
                       'position': 720},
 'signal/odd-rpc=True': {'result': ('sha256', 'f369bddcaca135af353d200ffb03ecc80d23a30680cadba1531869b05b2984b8'),
                         'summary': ('tuple', 'dict', 'list', 5,
                                     [('dict', 720, ('dict', [('start', 1264), ('size', 32), ('stop', 1296)])),
                                      ('dict', 1296, ('dict', [('start', 1840), ('size', 32), ('stop', 1872)])),
                                      ('dict', 1872, ('dict', [('start', 2416), ('size', 32), ('stop', 2448)])),
                                      ('dict', 2448, ('dict', [('start', 2992), ('size', 32), ('stop', 3024)])),
                                      ('dict', 3024, ('dict', [('start', 3568), ('size', 32), ('stop', 3600)]))]),
                         'requests': [('read', [720], ('dict', []), 0), ('read', [576], ('dict', []), 720), ('read', [576], ('dict', []), 1296),
                                      ('read', [576], ('dict', []), 1872), ('read', [576], ('dict', []), 2448), ('read', [576], ('dict', []), 3024)],
                         'position': 3600},
 'empty/odd-rpc=True': {'result': ('sha256', '901574771918b6a6ba998bd09ed37b2c65d657440dd8492229540bf02462e8bb'),
                        'summary': ('tuple', 'dict', 'list', 0, []),
                        'requests': [('read', [720], ('dict', []), 0)],
                        'position': 720},
 'signal/odd-rpc=False': {'result': ('raised', 'builtins', 'ZeroDivisionError', 'division by zero'),
                          'summary': None,
                          'requests': [('read', [720], ('dict', []), 0)],
                          'position': 720},
 'empty/odd-rpc=False': {'result': ('raised', 'builtins', 'ZeroDivisionError', 'division by zero'),
                         'summary': None,
                         'requests': [('read', [720], ('dict', []), 0)],
                         'position': 720},
 'signal/odd-rpc=[2]': {'result': ('raised', 'builtins', 'TypeError', "unsupported operand type(s) for /: 'int' and 'list'"),
                        'summary': None,
                        'requests': [('read', [720], ('dict', []), 0)],
                        'position': 720},
 'empty/odd-rpc=[2]': {'result': ('raised', 'builtins', 'TypeError', "unsupported operand type(s) for /: 'int' and 'list'"),
                       'summary': None,
                       'requests': [('read', [720], ('dict', []), 0)],
                       'position': 720},
 'signal/odd-rpc=1000000000000000000000000000000': {'result': ('sha256', 'f369bddcaca135af353d200ffb03ecc80d23a30680cadba1531869b05b2984b8'),
                                                    'summary': ('tuple', 'dict', 'list', 5,
                                                                [('dict', 720, ('dict', [('start', 1264), ('size', 32), ('stop', 1296)])),
                                                                 ('dict', 1296, ('dict', [('start', 1840), ('size', 32), ('stop', 1872)])),
                                                                 ('dict', 1872, ('dict', [('start', 2416), ('size', 32), ('stop', 2448)])),
                                                                 ('dict', 2448, ('dict', [('start', 2992), ('size', 32), ('stop', 3024)])),
                                                                 ('dict', 3024, ('dict', [('start', 3568), ('size', 32), ('stop', 3600)]))]),
                                                    'requests': [('read', [720], ('dict', []), 0), ('read', [2880], ('dict', []), 720)],
                                                    'position': 3600},
 'empty/odd-rpc=1000000000000000000000000000000': {'result': ('sha256', '901574771918b6a6ba998bd09ed37b2c65d657440dd8492229540bf02462e8bb'),
                                                   'summary': ('tuple', 'dict', 'list', 0, []),
                                                   'requests': [('read', [720], ('dict', []), 0)],
                                                   'position': 720},
 'signal/rpc=float-inf': {'result': ('sha256', 'e5e021c000acc3ac129e8b3e1d79164398811a5d36a454a7a907e73599697888'),
                          'summary': ('tuple', 'dict', 'list', 0, []),
                          'requests': [('read', [720], ('dict', []), 0)],
                          'position': 720},
 'signal/rpc=float-nan': {'result': ('raised', 'builtins', 'ValueError', 'cannot convert float NaN to integer'),
                          'summary': None,
                          'requests': [('read', [720], ('dict', []), 0)],
                          'position': 720},
 'truncated/in-header': {'result': ('raised', 'construct.core', 'StreamError',
                                    'Error in path (parsing) -> scansar_burst_data_information -> blanks\n'
                                    'stream read less than specified amount, expected 260, found 40'),
                         'summary': None,
                         'requests': [('read', [720], ('dict', []), 0)],
                         'position': 500},
 'truncated/no-header': {'result': ('raised', 'construct.core', 'StreamError',
                                    'Error in path (parsing) -> preamble -> record_sequence_number\n'
                                    'stream read less than specified amount, expected 4, found 0'),
                         'summary': None,
                         'requests': [('read', [720], ('dict', []), 0)],
                         'position': 0},
 'truncated/after-header': {'result': ('raised', 'construct.core', 'StreamError',
                                       'Error in path (parsing) -> record_sequence_number\nstream read less than specified amount, expected 4, found 0'),
                            'summary': None,
                            'requests': [('read', [720], ('dict', []), 0), ('read', [1152], ('dict', []), 720)],
                            'position': 720},
 'truncated/within-first-record': {'result': ('raised', 'builtins', 'ValueError', 'sizes mismatch: chunksize is 0 but got 100 bytes'),
                                   'summary': None,
                                   'requests': [('read', [720], ('dict', []), 0), ('read', [1152], ('dict', []), 720)],
                                   'position': 820},
 'truncated/within-third-record': {'result': ('raised', 'builtins', 'ValueError', 'sizes mismatch: chunksize is 0 but got 7 bytes'),
                                   'summary': None,
                                   'requests': [('read', [720], ('dict', []), 0), ('read', [1152], ('dict', []), 720), ('read', [1152], ('dict', []), 1872)],
                                   'position': 1879},
 'truncated/within-third-record/rpc=1': {'result': ('raised', 'builtins', 'ValueError', 'sizes mismatch: chunksize is 0 but got 7 bytes'),
                                         'summary': None,
                                         'requests': [('read', [720], ('dict', []), 0), ('read', [576], ('dict', []), 720), ('read', [576], ('dict', []), 1296),
                                                      ('read', [576], ('dict', []), 1872)],
                                         'position': 1879},
 'truncated/last-record-missing': {'result': ('raised', 'construct.core', 'StreamError',
                                              'Error in path (parsing) -> record_sequence_number\nstream read less than specified amount, expected 4, found 0'),
                                   'summary': None,
                                   'requests': [('read', [720], ('dict', []), 0), ('read', [1152], ('dict', []), 720), ('read', [1152], ('dict', []), 1872),
                                                ('read', [576], ('dict', []), 3024)],
                                   'position': 3024},
 'truncated/last-record-missing/rpc=5': {'result': ('sha256', '75f4749693fa9cdac60a7bb5f18f0107a1d774ce22770b5482b0efd0f1ab61bc'),
                                         'summary': ('tuple', 'dict', 'list', 4,
                                                     [('dict', 720, ('dict', [('start', 1264), ('size', 32), ('stop', 1296)])),
                                                      ('dict', 1296, ('dict', [('start', 1840), ('size', 32), ('stop', 1872)])),
                                                      ('dict', 1872, ('dict', [('start', 2416), ('size', 32), ('stop', 2448)])),
                                                      ('dict', 2448, ('dict', [('start', 2992), ('size', 32), ('stop', 3024)]))]),
                                         'requests': [('read', [720], ('dict', []), 0), ('read', [2880], ('dict', []), 720)],
                                         'position': 3024},
 'trailing-bytes': {'result': ('sha256', 'f369bddcaca135af353d200ffb03ecc80d23a30680cadba1531869b05b2984b8'),
                    'summary': ('tuple', 'dict', 'list', 5,
                                [('dict', 720, ('dict', [('start', 1264), ('size', 32), ('stop', 1296)])),
                                 ('dict', 1296, ('dict', [('start', 1840), ('size', 32), ('stop', 1872)])),
                                 ('dict', 1872, ('dict', [('start', 2416), ('size', 32), ('stop', 2448)])),
                                 ('dict', 2448, ('dict', [('start', 2992), ('size', 32), ('stop', 3024)])),
                                 ('dict', 3024, ('dict', [('start', 3568), ('size', 32), ('stop', 3600)]))]),
                    'requests': [('read', [720], ('dict', []), 0), ('read', [1152], ('dict', []), 720), ('read', [1152], ('dict', []), 1872),
                                 ('read', [576], ('dict', []), 3024)],
                    'position': 3600},
 'unknown-type-in-third-record/rpc=1': {'result': ('raised', 'builtins', 'ValueError', 'unknown record type code: 12'),
                                        'summary': None,
                                        'requests': [('read', [720], ('dict', []), 0), ('read', [576], ('dict', []), 720), ('read', [576], ('dict', []), 1296),
                                                     ('read', [576], ('dict', []), 1872)],
                                        'position': 2448},
 'unknown-type-in-third-record/rpc=2': {'result': ('raised', 'builtins', 'ValueError', 'unknown record type code: 12'),
                                        'summary': None,
                                        'requests': [('read', [720], ('dict', []), 0), ('read', [1152], ('dict', []), 720),
                                                     ('read', [1152], ('dict', []), 1872)],
                                        'position': 3024},
 'unknown-type-in-third-record/rpc=3': {'result': ('sha256', 'bbad5f1bff1b4822d8d94ae3adf119466365511af2620b794710cc480ea4f241'),
                                        'summary': ('tuple', 'dict', 'list', 5,
                                                    [('dict', 720, ('dict', [('start', 1264), ('size', 32), ('stop', 1296)])),
                                                     ('dict', 1296, ('dict', [('start', 1840), ('size', 32), ('stop', 1872)])),
                                                     ('dict', 1872, ('dict', [('start', 2416), ('size', 32), ('stop', 2448)])),
                                                     ('dict', 2448, ('dict', [('start', 2992), ('size', 32), ('stop', 3024)])),
                                                     ('dict', 3024, ('dict', [('start', 3568), ('size', 32), ('stop', 3600)]))]),
                                        'requests': [('read', [720], ('dict', []), 0), ('read', [1728], ('dict', []), 720),
                                                     ('read', [1152], ('dict', []), 2448)],
                                        'position': 3600},
 'mixed-types/rpc=1': {'result': ('sha256', 'ff406cb5a840489be37967c5d42c22430cbb526d1aaac96643e7bb220bb03445'),
                       'summary': ('tuple', 'dict', 'list', 4,
                                   [('dict', 720, ('dict', [('start', 912), ('size', 6), ('stop', 918)])),
                                    ('dict', 918, ('dict', [('start', 1110), ('size', 6), ('stop', 1116)])),
                                    ('dict', 1116, ('dict', [('start', 1308), ('size', 6), ('stop', 1314)])),
                                    ('dict', 1314, ('dict', [('start', 1506), ('size', 6), ('stop', 1512)]))]),
                       'requests': [('read', [720], ('dict', []), 0), ('read', [198], ('dict', []), 720), ('read', [198], ('dict', []), 918),
                                    ('read', [198], ('dict', []), 1116), ('read', [198], ('dict', []), 1314)],
                       'position': 1512},
 'mixed-types/rpc=2': {'result': ('sha256', 'ff406cb5a840489be37967c5d42c22430cbb526d1aaac96643e7bb220bb03445'),
                       'summary': ('tuple', 'dict', 'list', 4,
                                   [('dict', 720, ('dict', [('start', 912), ('size', 6), ('stop', 918)])),
                                    ('dict', 918, ('dict', [('start', 1110), ('size', 6), ('stop', 1116)])),
                                    ('dict', 1116, ('dict', [('start', 1308), ('size', 6), ('stop', 1314)])),
                                    ('dict', 1314, ('dict', [('start', 1506), ('size', 6), ('stop', 1512)]))]),
                       'requests': [('read', [720], ('dict', []), 0), ('read', [396], ('dict', []), 720), ('read', [396], ('dict', []), 1116)],
                       'position': 1512},
 'header-claims-more-records/rpc=4': {'result': ('raised', 'construct.core', 'StreamError',
                                                 'Error in path (parsing) -> record_sequence_number\n'
                                                 'stream read less than specified amount, expected 4, found 0'),
                                      'summary': None,
                                      'requests': [('read', [720], ('dict', []), 0), ('read', [792], ('dict', []), 720), ('read', [396], ('dict', []), 1512)],
                                      'position': 1512},
 'header-claims-more-records/rpc=1': {'result': ('raised', 'construct.core', 'StreamError',
                                                 'Error in path (parsing) -> record_sequence_number\n'
                                                 'stream read less than specified amount, expected 4, found 0'),
                                      'summary': None,
                                      'requests': [('read', [720], ('dict', []), 0), ('read', [198], ('dict', []), 720), ('read', [198], ('dict', []), 918),
                                                   ('read', [198], ('dict', []), 1116), ('read', [198], ('dict', []), 1314),
                                                   ('read', [198], ('dict', []), 1512)],
                                      'position': 1512},
 'header-claims-fewer-records': {'result': ('sha256', '5b382ff48969255b7daee924642b043311553b364d6c13b6ebf073000c08d08f'),
                                 'summary': ('tuple', 'dict', 'list', 2,
                                             [('dict', 720, ('dict', [('start', 912), ('size', 6), ('stop', 918)])),
                                              ('dict', 918, ('dict', [('start', 1110), ('size', 6), ('stop', 1116)]))]),
                                 'requests': [('read', [720], ('dict', []), 0), ('read', [396], ('dict', []), 720)],
                                 'position': 1116},
 'header-blank-record-count': {'result': ('sha256', '75f98e0e3fab83805e4b963ff3e7b3730512ae0807846fba7daef22a02a28dda'),
                               'summary': ('tuple', 'dict', 'list', 0, []),
                               'requests': [('read', [720], ('dict', []), 0)],
                               'position': 720},
 'header-blank-record-length': {'result': ('raised', 'construct.core', 'RangeError', 'Error in path (parsing)\ninvalid count -792'),
                                'summary': None,
                                'requests': [('read', [720], ('dict', []), 0), ('read', [-4], ('dict', []), 720)],
                                'position': 1512},
 'header-wrong-record-length/rpc=2': {'result': ('raised', 'construct.core', 'StreamError',
                                                 'Error in path (parsing) -> preamble -> record_sequence_number\n'
                                                 'stream read less than specified amount, expected 4, found 2'),
                                      'summary': None,
                                      'requests': [('read', [720], ('dict', []), 0), ('read', [200], ('dict', []), 720)],
                                      'position': 920},
 'header-double-record-length/rpc=2': {'result': ('raised', 'builtins', 'ValueError', 'sizes mismatch: chunksize is 400 but got 792 bytes'),
                                       'summary': None,
                                       'requests': [('read', [720], ('dict', []), 0), ('read', [800], ('dict', []), 720)],
                                       'position': 1512},
 'header-double-record-length/rpc=1': {'result': ('raised', 'builtins', 'ValueError', 'sizes mismatch: chunksize is 0 but got 392 bytes'),
                                       'summary': None,
                                       'requests': [('read', [720], ('dict', []), 0), ('read', [400], ('dict', []), 720), ('read', [400], ('dict', []), 1120)],
                                       'position': 1512},
 'header-zero-record-length': {'result': ('raised', 'builtins', 'ZeroDivisionError', 'integer division or modulo by zero'),
                               'summary': None,
                               'requests': [('read', [720], ('dict', []), 0), ('read', [0], ('dict', []), 720)],
                               'position': 720},
 'header-not-ascii': {'result': ('raised', 'construct.core', 'StringError', "cannot use encoding 'ascii' to decode b'\\xff\\xff\\xff\\xff\\xff\\xff'"),
                      'summary': None,
                      'requests': [('read', [720], ('dict', []), 0)],
                      'position': 720},
 'dummy/n=0/rpc=1': {'result': ('returned', (('dict', [('number_of_sar_data_records', 0), ('sar_data_record_length', 17)]), [])),
                     'summary': ('tuple', 'dict', 'list', 0, []),
                     'requests': [('read', [2], ('dict', []), 0)],
                     'position': 2},
 'dummy/n=0/rpc=2': {'result': ('returned', (('dict', [('number_of_sar_data_records', 0), ('sar_data_record_length', 17)]), [])),
                     'summary': ('tuple', 'dict', 'list', 0, []),
                     'requests': [('read', [2], ('dict', []), 0)],
                     'position': 2},
 'dummy/n=0/rpc=3': {'result': ('returned', (('dict', [('number_of_sar_data_records', 0), ('sar_data_record_length', 17)]), [])),
                     'summary': ('tuple', 'dict', 'list', 0, []),
                     'requests': [('read', [2], ('dict', []), 0)],
                     'position': 2},
 'dummy/n=0/rpc=4': {'result': ('returned', (('dict', [('number_of_sar_data_records', 0), ('sar_data_record_length', 17)]), [])),
                     'summary': ('tuple', 'dict', 'list', 0, []),
                     'requests': [('read', [2], ('dict', []), 0)],
                     'position': 2},
 'dummy/n=0/rpc=1024': {'result': ('returned', (('dict', [('number_of_sar_data_records', 0), ('sar_data_record_length', 17)]), [])),
                        'summary': ('tuple', 'dict', 'list', 0, []),
                        'requests': [('read', [2], ('dict', []), 0)],
                        'position': 2},
 'dummy/n=1/rpc=1': {'result': ('returned',
                                (('dict', [('number_of_sar_data_records', 1), ('sar_data_record_length', 17)]),
                                 [('dict',
                                   [('preamble',
                                     ('dict',
                                      [('record_sequence_number', 1), ('first_record_subtype', 50), ('record_type', 11), ('second_record_subtype', 18),
                                       ('third_record_subtype', 20), ('record_length', 17)])),
                                    ('record_start', 732), ('a', 3), ('data', ('dict', [('start', 733), ('stop', 737)]))])])),
                     'summary': ('tuple', 'dict', 'list', 1, [('dict', 732, ('dict', [('start', 733), ('stop', 737)]))]),
                     'requests': [('read', [2], ('dict', []), 0), ('read', [17], ('dict', []), 2)],
                     'position': 19},
 'dummy/n=1/rpc=2': {'result': ('returned',
                                (('dict', [('number_of_sar_data_records', 1), ('sar_data_record_length', 17)]),
                                 [('dict',
                                   [('preamble',
                                     ('dict',
                                      [('record_sequence_number', 1), ('first_record_subtype', 50), ('record_type', 11), ('second_record_subtype', 18),
                                       ('third_record_subtype', 20), ('record_length', 17)])),
                                    ('record_start', 732), ('a', 3), ('data', ('dict', [('start', 733), ('stop', 737)]))])])),
                     'summary': ('tuple', 'dict', 'list', 1, [('dict', 732, ('dict', [('start', 733), ('stop', 737)]))]),
                     'requests': [('read', [2], ('dict', []), 0), ('read', [17], ('dict', []), 2)],
                     'position': 19},
 'dummy/n=1/rpc=3': {'result': ('returned',
                                (('dict', [('number_of_sar_data_records', 1), ('sar_data_record_length', 17)]),
                                 [('dict',
                                   [('preamble',
                                     ('dict',
                                      [('record_sequence_number', 1), ('first_record_subtype', 50), ('record_type', 11), ('second_record_subtype', 18),
                                       ('third_record_subtype', 20), ('record_length', 17)])),
                                    ('record_start', 732), ('a', 3), ('data', ('dict', [('start', 733), ('stop', 737)]))])])),
                     'summary': ('tuple', 'dict', 'list', 1, [('dict', 732, ('dict', [('start', 733), ('stop', 737)]))]),
                     'requests': [('read', [2], ('dict', []), 0), ('read', [17], ('dict', []), 2)],
                     'position': 19},
 'dummy/n=1/rpc=4': {'result': ('returned',
                                (('dict', [('number_of_sar_data_records', 1), ('sar_data_record_length', 17)]),
                                 [('dict',
                                   [('preamble',
                                     ('dict',
                                      [('record_sequence_number', 1), ('first_record_subtype', 50), ('record_type', 11), ('second_record_subtype', 18),
                                       ('third_record_subtype', 20), ('record_length', 17)])),
                                    ('record_start', 732), ('a', 3), ('data', ('dict', [('start', 733), ('stop', 737)]))])])),
                     'summary': ('tuple', 'dict', 'list', 1, [('dict', 732, ('dict', [('start', 733), ('stop', 737)]))]),
                     'requests': [('read', [2], ('dict', []), 0), ('read', [17], ('dict', []), 2)],
                     'position': 19},
 'dummy/n=1/rpc=1024': {'result': ('returned',
                                   (('dict', [('number_of_sar_data_records', 1), ('sar_data_record_length', 17)]),
                                    [('dict',
                                      [('preamble',
                                        ('dict',
                                         [('record_sequence_number', 1), ('first_record_subtype', 50), ('record_type', 11), ('second_record_subtype', 18),
                                          ('third_record_subtype', 20), ('record_length', 17)])),
                                       ('record_start', 732), ('a', 3), ('data', ('dict', [('start', 733), ('stop', 737)]))])])),
                        'summary': ('tuple', 'dict', 'list', 1, [('dict', 732, ('dict', [('start', 733), ('stop', 737)]))]),
                        'requests': [('read', [2], ('dict', []), 0), ('read', [17], ('dict', []), 2)],
                        'position': 19},
 'dummy/n=3/rpc=1': {'result': ('returned',
                                (('dict', [('number_of_sar_data_records', 3), ('sar_data_record_length', 17)]),
                                 [('dict',
                                   [('preamble',
                                     ('dict',
                                      [('record_sequence_number', 1), ('first_record_subtype', 50), ('record_type', 11), ('second_record_subtype', 18),
                                       ('third_record_subtype', 20), ('record_length', 17)])),
                                    ('record_start', 732), ('a', 3), ('data', ('dict', [('start', 733), ('stop', 737)]))]),
                                  ('dict',
                                   [('preamble',
                                     ('dict',
                                      [('record_sequence_number', 2), ('first_record_subtype', 50), ('record_type', 11), ('second_record_subtype', 18),
                                       ('third_record_subtype', 20), ('record_length', 17)])),
                                    ('record_start', 749), ('a', 4), ('data', ('dict', [('start', 750), ('stop', 754)]))]),
                                  ('dict',
                                   [('preamble',
                                     ('dict',
                                      [('record_sequence_number', 3), ('first_record_subtype', 50), ('record_type', 11), ('second_record_subtype', 18),
                                       ('third_record_subtype', 20), ('record_length', 17)])),
                                    ('record_start', 766), ('a', 5), ('data', ('dict', [('start', 767), ('stop', 771)]))])])),
                     'summary': ('tuple', 'dict', 'list', 3,
                                 [('dict', 732, ('dict', [('start', 733), ('stop', 737)])), ('dict', 749, ('dict', [('start', 750), ('stop', 754)])),
                                  ('dict', 766, ('dict', [('start', 767), ('stop', 771)]))]),
                     'requests': [('read', [2], ('dict', []), 0), ('read', [17], ('dict', []), 2), ('read', [17], ('dict', []), 19),
                                  ('read', [17], ('dict', []), 36)],
                     'position': 53},
 'dummy/n=3/rpc=2': {'result': ('returned',
                                (('dict', [('number_of_sar_data_records', 3), ('sar_data_record_length', 17)]),
                                 [('dict',
                                   [('preamble',
                                     ('dict',
                                      [('record_sequence_number', 1), ('first_record_subtype', 50), ('record_type', 11), ('second_record_subtype', 18),
                                       ('third_record_subtype', 20), ('record_length', 17)])),
                                    ('record_start', 732), ('a', 3), ('data', ('dict', [('start', 733), ('stop', 737)]))]),
                                  ('dict',
                                   [('preamble',
                                     ('dict',
                                      [('record_sequence_number', 2), ('first_record_subtype', 50), ('record_type', 11), ('second_record_subtype', 18),
                                       ('third_record_subtype', 20), ('record_length', 17)])),
                                    ('record_start', 749), ('a', 4), ('data', ('dict', [('start', 750), ('stop', 754)]))]),
                                  ('dict',
                                   [('preamble',
                                     ('dict',
                                      [('record_sequence_number', 3), ('first_record_subtype', 50), ('record_type', 11), ('second_record_subtype', 18),
                                       ('third_record_subtype', 20), ('record_length', 17)])),
                                    ('record_start', 766), ('a', 5), ('data', ('dict', [('start', 767), ('stop', 771)]))])])),
                     'summary': ('tuple', 'dict', 'list', 3,
                                 [('dict', 732, ('dict', [('start', 733), ('stop', 737)])), ('dict', 749, ('dict', [('start', 750), ('stop', 754)])),
                                  ('dict', 766, ('dict', [('start', 767), ('stop', 771)]))]),
                     'requests': [('read', [2], ('dict', []), 0), ('read', [34], ('dict', []), 2), ('read', [17], ('dict', []), 36)],
                     'position': 53},
 'dummy/n=3/rpc=3': {'result': ('returned',
                                (('dict', [('number_of_sar_data_records', 3), ('sar_data_record_length', 17)]),
                                 [('dict',
                                   [('preamble',
                                     ('dict',
                                      [('record_sequence_number', 1), ('first_record_subtype', 50), ('record_type', 11), ('second_record_subtype', 18),
                                       ('third_record_subtype', 20), ('record_length', 17)])),
                                    ('record_start', 732), ('a', 3), ('data', ('dict', [('start', 733), ('stop', 737)]))]),
                                  ('dict',
                                   [('preamble',
                                     ('dict',
                                      [('record_sequence_number', 2), ('first_record_subtype', 50), ('record_type', 11), ('second_record_subtype', 18),
                                       ('third_record_subtype', 20), ('record_length', 17)])),
                                    ('record_start', 749), ('a', 4), ('data', ('dict', [('start', 750), ('stop', 754)]))]),
                                  ('dict',
                                   [('preamble',
                                     ('dict',
                                      [('record_sequence_number', 3), ('first_record_subtype', 50), ('record_type', 11), ('second_record_subtype', 18),
                                       ('third_record_subtype', 20), ('record_length', 17)])),
                                    ('record_start', 766), ('a', 5), ('data', ('dict', [('start', 767), ('stop', 771)]))])])),
                     'summary': ('tuple', 'dict', 'list', 3,
                                 [('dict', 732, ('dict', [('start', 733), ('stop', 737)])), ('dict', 749, ('dict', [('start', 750), ('stop', 754)])),
                                  ('dict', 766, ('dict', [('start', 767), ('stop', 771)]))]),
                     'requests': [('read', [2], ('dict', []), 0), ('read', [51], ('dict', []), 2)],
                     'position': 53},
 'dummy/n=3/rpc=4': {'result': ('returned',
                                (('dict', [('number_of_sar_data_records', 3), ('sar_data_record_length', 17)]),
                                 [('dict',
                                   [('preamble',
                                     ('dict',
                                      [('record_sequence_number', 1), ('first_record_subtype', 50), ('record_type', 11), ('second_record_subtype', 18),
                                       ('third_record_subtype', 20), ('record_length', 17)])),
                                    ('record_start', 732), ('a', 3), ('data', ('dict', [('start', 733), ('stop', 737)]))]),
                                  ('dict',
                                   [('preamble',
                                     ('dict',
                                      [('record_sequence_number', 2), ('first_record_subtype', 50), ('record_type', 11), ('second_record_subtype', 18),
                                       ('third_record_subtype', 20), ('record_length', 17)])),
                                    ('record_start', 749), ('a', 4), ('data', ('dict', [('start', 750), ('stop', 754)]))]),
                                  ('dict',
                                   [('preamble',
                                     ('dict',
                                      [('record_sequence_number', 3), ('first_record_subtype', 50), ('record_type', 11), ('second_record_subtype', 18),
                                       ('third_record_subtype', 20), ('record_length', 17)])),
                                    ('record_start', 766), ('a', 5), ('data', ('dict', [('start', 767), ('stop', 771)]))])])),
                     'summary': ('tuple', 'dict', 'list', 3,
                                 [('dict', 732, ('dict', [('start', 733), ('stop', 737)])), ('dict', 749, ('dict', [('start', 750), ('stop', 754)])),
                                  ('dict', 766, ('dict', [('start', 767), ('stop', 771)]))]),
                     'requests': [('read', [2], ('dict', []), 0), ('read', [51], ('dict', []), 2)],
                     'position': 53},
 'dummy/n=3/rpc=1024': {'result': ('returned',
                                   (('dict', [('number_of_sar_data_records', 3), ('sar_data_record_length', 17)]),
                                    [('dict',
                                      [('preamble',
                                        ('dict',
                                         [('record_sequence_number', 1), ('first_record_subtype', 50), ('record_type', 11), ('second_record_subtype', 18),
                                          ('third_record_subtype', 20), ('record_length', 17)])),
                                       ('record_start', 732), ('a', 3), ('data', ('dict', [('start', 733), ('stop', 737)]))]),
                                     ('dict',
                                      [('preamble',
                                        ('dict',
                                         [('record_sequence_number', 2), ('first_record_subtype', 50), ('record_type', 11), ('second_record_subtype', 18),
                                          ('third_record_subtype', 20), ('record_length', 17)])),
                                       ('record_start', 749), ('a', 4), ('data', ('dict', [('start', 750), ('stop', 754)]))]),
                                     ('dict',
                                      [('preamble',
                                        ('dict',
                                         [('record_sequence_number', 3), ('first_record_subtype', 50), ('record_type', 11), ('second_record_subtype', 18),
                                          ('third_record_subtype', 20), ('record_length', 17)])),
                                       ('record_start', 766), ('a', 5), ('data', ('dict', [('start', 767), ('stop', 771)]))])])),
                        'summary': ('tuple', 'dict', 'list', 3,
                                    [('dict', 732, ('dict', [('start', 733), ('stop', 737)])), ('dict', 749, ('dict', [('start', 750), ('stop', 754)])),
                                     ('dict', 766, ('dict', [('start', 767), ('stop', 771)]))]),
                        'requests': [('read', [2], ('dict', []), 0), ('read', [51], ('dict', []), 2)],
                        'position': 53},
 'dummy/n=7/rpc=1': {'result': ('returned',
                                (('dict', [('number_of_sar_data_records', 7), ('sar_data_record_length', 17)]),
                                 [('dict',
                                   [('preamble',
                                     ('dict',
                                      [('record_sequence_number', 1), ('first_record_subtype', 50), ('record_type', 11), ('second_record_subtype', 18),
                                       ('third_record_subtype', 20), ('record_length', 17)])),
                                    ('record_start', 732), ('a', 3), ('data', ('dict', [('start', 733), ('stop', 737)]))]),
                                  ('dict',
                                   [('preamble',
                                     ('dict',
                                      [('record_sequence_number', 2), ('first_record_subtype', 50), ('record_type', 11), ('second_record_subtype', 18),
                                       ('third_record_subtype', 20), ('record_length', 17)])),
                                    ('record_start', 749), ('a', 4), ('data', ('dict', [('start', 750), ('stop', 754)]))]),
                                  ('dict',
                                   [('preamble',
                                     ('dict',
                                      [('record_sequence_number', 3), ('first_record_subtype', 50), ('record_type', 11), ('second_record_subtype', 18),
                                       ('third_record_subtype', 20), ('record_length', 17)])),
                                    ('record_start', 766), ('a', 5), ('data', ('dict', [('start', 767), ('stop', 771)]))]),
                                  ('dict',
                                   [('preamble',
                                     ('dict',
                                      [('record_sequence_number', 4), ('first_record_subtype', 50), ('record_type', 11), ('second_record_subtype', 18),
                                       ('third_record_subtype', 20), ('record_length', 17)])),
                                    ('record_start', 783), ('a', 6), ('data', ('dict', [('start', 784), ('stop', 788)]))]),
                                  ('dict',
                                   [('preamble',
                                     ('dict',
                                      [('record_sequence_number', 5), ('first_record_subtype', 50), ('record_type', 11), ('second_record_subtype', 18),
                                       ('third_record_subtype', 20), ('record_length', 17)])),
                                    ('record_start', 800), ('a', 7), ('data', ('dict', [('start', 801), ('stop', 805)]))]),
                                  ('dict',
                                   [('preamble',
                                     ('dict',
                                      [('record_sequence_number', 6), ('first_record_subtype', 50), ('record_type', 11), ('second_record_subtype', 18),
                                       ('third_record_subtype', 20), ('record_length', 17)])),
                                    ('record_start', 817), ('a', 8), ('data', ('dict', [('start', 818), ('stop', 822)]))]),
                                  ('dict',
                                   [('preamble',
                                     ('dict',
                                      [('record_sequence_number', 7), ('first_record_subtype', 50), ('record_type', 11), ('second_record_subtype', 18),
                                       ('third_record_subtype', 20), ('record_length', 17)])),
                                    ('record_start', 834), ('a', 9), ('data', ('dict', [('start', 835), ('stop', 839)]))])])),
                     'summary': ('tuple', 'dict', 'list', 7,
                                 [('dict', 732, ('dict', [('start', 733), ('stop', 737)])), ('dict', 749, ('dict', [('start', 750), ('stop', 754)])),
                                  ('dict', 766, ('dict', [('start', 767), ('stop', 771)])), ('dict', 783, ('dict', [('start', 784), ('stop', 788)])),
                                  ('dict', 800, ('dict', [('start', 801), ('stop', 805)])), ('dict', 817, ('dict', [('start', 818), ('stop', 822)])),
                                  ('dict', 834, ('dict', [('start', 835), ('stop', 839)]))]),
                     'requests': [('read', [2], ('dict', []), 0), ('read', [17], ('dict', []), 2), ('read', [17], ('dict', []), 19),
                                  ('read', [17], ('dict', []), 36), ('read', [17], ('dict', []), 53), ('read', [17], ('dict', []), 70),
                                  ('read', [17], ('dict', []), 87), ('read', [17], ('dict', []), 104)],
                     'position': 121},
 'dummy/n=7/rpc=2': {'result': ('returned',
                                (('dict', [('number_of_sar_data_records', 7), ('sar_data_record_length', 17)]),
                                 [('dict',
                                   [('preamble',
                                     ('dict',
                                      [('record_sequence_number', 1), ('first_record_subtype', 50), ('record_type', 11), ('second_record_subtype', 18),
                                       ('third_record_subtype', 20), ('record_length', 17)])),
                                    ('record_start', 732), ('a', 3), ('data', ('dict', [('start', 733), ('stop', 737)]))]),
                                  ('dict',
                                   [('preamble',
                                     ('dict',
                                      [('record_sequence_number', 2), ('first_record_subtype', 50), ('record_type', 11), ('second_record_subtype', 18),
                                       ('third_record_subtype', 20), ('record_length', 17)])),
                                    ('record_start', 749), ('a', 4), ('data', ('dict', [('start', 750), ('stop', 754)]))]),
                                  ('dict',
                                   [('preamble',
                                     ('dict',
                                      [('record_sequence_number', 3), ('first_record_subtype', 50), ('record_type', 11), ('second_record_subtype', 18),
                                       ('third_record_subtype', 20), ('record_length', 17)])),
                                    ('record_start', 766), ('a', 5), ('data', ('dict', [('start', 767), ('stop', 771)]))]),
                                  ('dict',
                                   [('preamble',
                                     ('dict',
                                      [('record_sequence_number', 4), ('first_record_subtype', 50), ('record_type', 11), ('second_record_subtype', 18),
                                       ('third_record_subtype', 20), ('record_length', 17)])),
                                    ('record_start', 783), ('a', 6), ('data', ('dict', [('start', 784), ('stop', 788)]))]),
                                  ('dict',
                                   [('preamble',
                                     ('dict',
                                      [('record_sequence_number', 5), ('first_record_subtype', 50), ('record_type', 11), ('second_record_subtype', 18),
                                       ('third_record_subtype', 20), ('record_length', 17)])),
                                    ('record_start', 800), ('a', 7), ('data', ('dict', [('start', 801), ('stop', 805)]))]),
                                  ('dict',
                                   [('preamble',
                                     ('dict',
                                      [('record_sequence_number', 6), ('first_record_subtype', 50), ('record_type', 11), ('second_record_subtype', 18),
                                       ('third_record_subtype', 20), ('record_length', 17)])),
                                    ('record_start', 817), ('a', 8), ('data', ('dict', [('start', 818), ('stop', 822)]))]),
                                  ('dict',
                                   [('preamble',
                                     ('dict',
                                      [('record_sequence_number', 7), ('first_record_subtype', 50), ('record_type', 11), ('second_record_subtype', 18),
                                       ('third_record_subtype', 20), ('record_length', 17)])),
                                    ('record_start', 834), ('a', 9), ('data', ('dict', [('start', 835), ('stop', 839)]))])])),
                     'summary': ('tuple', 'dict', 'list', 7,
                                 [('dict', 732, ('dict', [('start', 733), ('stop', 737)])), ('dict', 749, ('dict', [('start', 750), ('stop', 754)])),
                                  ('dict', 766, ('dict', [('start', 767), ('stop', 771)])), ('dict', 783, ('dict', [('start', 784), ('stop', 788)])),
                                  ('dict', 800, ('dict', [('start', 801), ('stop', 805)])), ('dict', 817, ('dict', [('start', 818), ('stop', 822)])),
                                  ('dict', 834, ('dict', [('start', 835), ('stop', 839)]))]),
                     'requests': [('read', [2], ('dict', []), 0), ('read', [34], ('dict', []), 2), ('read', [34], ('dict', []), 36),
                                  ('read', [34], ('dict', []), 70), ('read', [17], ('dict', []), 104)],
                     'position': 121},
 'dummy/n=7/rpc=3': {'result': ('returned',
                                (('dict', [('number_of_sar_data_records', 7), ('sar_data_record_length', 17)]),
                                 [('dict',
                                   [('preamble',
                                     ('dict',
                                      [('record_sequence_number', 1), ('first_record_subtype', 50), ('record_type', 11), ('second_record_subtype', 18),
                                       ('third_record_subtype', 20), ('record_length', 17)])),
                                    ('record_start', 732), ('a', 3), ('data', ('dict', [('start', 733), ('stop', 737)]))]),
                                  ('dict',
                                   [('preamble',
                                     ('dict',
                                      [('record_sequence_number', 2), ('first_record_subtype', 50), ('record_type', 11), ('second_record_subtype', 18),
                                       ('third_record_subtype', 20), ('record_length', 17)])),
                                    ('record_start', 749), ('a', 4), ('data', ('dict', [('start', 750), ('stop', 754)]))]),
                                  ('dict',
                                   [('preamble',
                                     ('dict',
                                      [('record_sequence_number', 3), ('first_record_subtype', 50), ('record_type', 11), ('second_record_subtype', 18),
                                       ('third_record_subtype', 20), ('record_length', 17)])),
                                    ('record_start', 766), ('a', 5), ('data', ('dict', [('start', 767), ('stop', 771)]))]),
                                  ('dict',
                                   [('preamble',
                                     ('dict',
                                      [('record_sequence_number', 4), ('first_record_subtype', 50), ('record_type', 11), ('second_record_subtype', 18),
                                       ('third_record_subtype', 20), ('record_length', 17)])),
                                    ('record_start', 783), ('a', 6), ('data', ('dict', [('start', 784), ('stop', 788)]))]),
                                  ('dict',
                                   [('preamble',
                                     ('dict',
                                      [('record_sequence_number', 5), ('first_record_subtype', 50), ('record_type', 11), ('second_record_subtype', 18),
                                       ('third_record_subtype', 20), ('record_length', 17)])),
                                    ('record_start', 800), ('a', 7), ('data', ('dict', [('start', 801), ('stop', 805)]))]),
                                  ('dict',
                                   [('preamble',
                                     ('dict',
                                      [('record_sequence_number', 6), ('first_record_subtype', 50), ('record_type', 11), ('second_record_subtype', 18),
                                       ('third_record_subtype', 20), ('record_length', 17)])),
                                    ('record_start', 817), ('a', 8), ('data', ('dict', [('start', 818), ('stop', 822)]))]),
                                  ('dict',
                                   [('preamble',
                                     ('dict',
                                      [('record_sequence_number', 7), ('first_record_subtype', 50), ('record_type', 11), ('second_record_subtype', 18),
                                       ('third_record_subtype', 20), ('record_length', 17)])),
                                    ('record_start', 834), ('a', 9), ('data', ('dict', [('start', 835), ('stop', 839)]))])])),
                     'summary': ('tuple', 'dict', 'list', 7,
                                 [('dict', 732, ('dict', [('start', 733), ('stop', 737)])), ('dict', 749, ('dict', [('start', 750), ('stop', 754)])),
                                  ('dict', 766, ('dict', [('start', 767), ('stop', 771)])), ('dict', 783, ('dict', [('start', 784), ('stop', 788)])),
                                  ('dict', 800, ('dict', [('start', 801), ('stop', 805)])), ('dict', 817, ('dict', [('start', 818), ('stop', 822)])),
                                  ('dict', 834, ('dict', [('start', 835), ('stop', 839)]))]),
                     'requests': [('read', [2], ('dict', []), 0), ('read', [51], ('dict', []), 2), ('read', [51], ('dict', []), 53),
                                  ('read', [17], ('dict', []), 104)],
                     'position': 121},
 'dummy/n=7/rpc=4': {'result': ('returned',
                                (('dict', [('number_of_sar_data_records', 7), ('sar_data_record_length', 17)]),
                                 [('dict',
                                   [('preamble',
                                     ('dict',
                                      [('record_sequence_number', 1), ('first_record_subtype', 50), ('record_type', 11), ('second_record_subtype', 18),
                                       ('third_record_subtype', 20), ('record_length', 17)])),
                                    ('record_start', 732), ('a', 3), ('data', ('dict', [('start', 733), ('stop', 737)]))]),
                                  ('dict',
                                   [('preamble',
                                     ('dict',
                                      [('record_sequence_number', 2), ('first_record_subtype', 50), ('record_type', 11), ('second_record_subtype', 18),
                                       ('third_record_subtype', 20), ('record_length', 17)])),
                                    ('record_start', 749), ('a', 4), ('data', ('dict', [('start', 750), ('stop', 754)]))]),
                                  ('dict',
                                   [('preamble',
                                     ('dict',
                                      [('record_sequence_number', 3), ('first_record_subtype', 50), ('record_type', 11), ('second_record_subtype', 18),
                                       ('third_record_subtype', 20), ('record_length', 17)])),
                                    ('record_start', 766), ('a', 5), ('data', ('dict', [('start', 767), ('stop', 771)]))]),
                                  ('dict',
                                   [('preamble',
                                     ('dict',
                                      [('record_sequence_number', 4), ('first_record_subtype', 50), ('record_type', 11), ('second_record_subtype', 18),
                                       ('third_record_subtype', 20), ('record_length', 17)])),
                                    ('record_start', 783), ('a', 6), ('data', ('dict', [('start', 784), ('stop', 788)]))]),
                                  ('dict',
                                   [('preamble',
                                     ('dict',
                                      [('record_sequence_number', 5), ('first_record_subtype', 50), ('record_type', 11), ('second_record_subtype', 18),
                                       ('third_record_subtype', 20), ('record_length', 17)])),
                                    ('record_start', 800), ('a', 7), ('data', ('dict', [('start', 801), ('stop', 805)]))]),
                                  ('dict',
                                   [('preamble',
                                     ('dict',
                                      [('record_sequence_number', 6), ('first_record_subtype', 50), ('record_type', 11), ('second_record_subtype', 18),
                                       ('third_record_subtype', 20), ('record_length', 17)])),
                                    ('record_start', 817), ('a', 8), ('data', ('dict', [('start', 818), ('stop', 822)]))]),
                                  ('dict',
                                   [('preamble',
                                     ('dict',
                                      [('record_sequence_number', 7), ('first_record_subtype', 50), ('record_type', 11), ('second_record_subtype', 18),
                                       ('third_record_subtype', 20), ('record_length', 17)])),
                                    ('record_start', 834), ('a', 9), ('data', ('dict', [('start', 835), ('stop', 839)]))])])),
                     'summary': ('tuple', 'dict', 'list', 7,
                                 [('dict', 732, ('dict', [('start', 733), ('stop', 737)])), ('dict', 749, ('dict', [('start', 750), ('stop', 754)])),
                                  ('dict', 766, ('dict', [('start', 767), ('stop', 771)])), ('dict', 783, ('dict', [('start', 784), ('stop', 788)])),
                                  ('dict', 800, ('dict', [('start', 801), ('stop', 805)])), ('dict', 817, ('dict', [('start', 818), ('stop', 822)])),
                                  ('dict', 834, ('dict', [('start', 835), ('stop', 839)]))]),
                     'requests': [('read', [2], ('dict', []), 0), ('read', [68], ('dict', []), 2), ('read', [51], ('dict', []), 70)],
                     'position': 121},
 'dummy/n=7/rpc=1024': {'result': ('returned',
                                   (('dict', [('number_of_sar_data_records', 7), ('sar_data_record_length', 17)]),
                                    [('dict',
                                      [('preamble',
                                        ('dict',
                                         [('record_sequence_number', 1), ('first_record_subtype', 50), ('record_type', 11), ('second_record_subtype', 18),
                                          ('third_record_subtype', 20), ('record_length', 17)])),
                                       ('record_start', 732), ('a', 3), ('data', ('dict', [('start', 733), ('stop', 737)]))]),
                                     ('dict',
                                      [('preamble',
                                        ('dict',
                                         [('record_sequence_number', 2), ('first_record_subtype', 50), ('record_type', 11), ('second_record_subtype', 18),
                                          ('third_record_subtype', 20), ('record_length', 17)])),
                                       ('record_start', 749), ('a', 4), ('data', ('dict', [('start', 750), ('stop', 754)]))]),
                                     ('dict',
                                      [('preamble',
                                        ('dict',
                                         [('record_sequence_number', 3), ('first_record_subtype', 50), ('record_type', 11), ('second_record_subtype', 18),
                                          ('third_record_subtype', 20), ('record_length', 17)])),
                                       ('record_start', 766), ('a', 5), ('data', ('dict', [('start', 767), ('stop', 771)]))]),
                                     ('dict',
                                      [('preamble',
                                        ('dict',
                                         [('record_sequence_number', 4), ('first_record_subtype', 50), ('record_type', 11), ('second_record_subtype', 18),
                                          ('third_record_subtype', 20), ('record_length', 17)])),
                                       ('record_start', 783), ('a', 6), ('data', ('dict', [('start', 784), ('stop', 788)]))]),
                                     ('dict',
                                      [('preamble',
                                        ('dict',
                                         [('record_sequence_number', 5), ('first_record_subtype', 50), ('record_type', 11), ('second_record_subtype', 18),
                                          ('third_record_subtype', 20), ('record_length', 17)])),
                                       ('record_start', 800), ('a', 7), ('data', ('dict', [('start', 801), ('stop', 805)]))]),
                                     ('dict',
                                      [('preamble',
                                        ('dict',
                                         [('record_sequence_number', 6), ('first_record_subtype', 50), ('record_type', 11), ('second_record_subtype', 18),
                                          ('third_record_subtype', 20), ('record_length', 17)])),
                                       ('record_start', 817), ('a', 8), ('data', ('dict', [('start', 818), ('stop', 822)]))]),
                                     ('dict',
                                      [('preamble',
                                        ('dict',
                                         [('record_sequence_number', 7), ('first_record_subtype', 50), ('record_type', 11), ('second_record_subtype', 18),
                                          ('third_record_subtype', 20), ('record_length', 17)])),
                                       ('record_start', 834), ('a', 9), ('data', ('dict', [('start', 835), ('stop', 839)]))])])),
                        'summary': ('tuple', 'dict', 'list', 7,
                                    [('dict', 732, ('dict', [('start', 733), ('stop', 737)])), ('dict', 749, ('dict', [('start', 750), ('stop', 754)])),
                                     ('dict', 766, ('dict', [('start', 767), ('stop', 771)])), ('dict', 783, ('dict', [('start', 784), ('stop', 788)])),
                                     ('dict', 800, ('dict', [('start', 801), ('stop', 805)])), ('dict', 817, ('dict', [('start', 818), ('stop', 822)])),
                                     ('dict', 834, ('dict', [('start', 835), ('stop', 839)]))]),
                        'requests': [('read', [2], ('dict', []), 0), ('read', [119], ('dict', []), 2)],
                        'position': 121},
 'dummy/header={}/rpc=2': {'result': ('raised', 'builtins', 'KeyError', "'number_of_sar_data_records'"),
                           'summary': None,
                           'requests': [('read', [2], ('dict', []), 0)],
                           'position': 2},
 'dummy/header={}/rpc=None': {'result': ('raised', 'builtins', 'KeyError', "'number_of_sar_data_records'"),
                              'summary': None,
                              'requests': [('read', [2], ('dict', []), 0)],
                              'position': 2},
 "dummy/header={'number_of_sar_data_records': 3}/rpc=2": {'result': ('raised', 'builtins', 'KeyError', "'sar_data_record_length'"),
                                                          'summary': None,
                                                          'requests': [('read', [2], ('dict', []), 0)],
                                                          'position': 2},
 "dummy/header={'number_of_sar_data_records': 3}/rpc=None": {'result': ('raised', 'builtins', 'KeyError', "'sar_data_record_length'"),
                                                             'summary': None,
                                                             'requests': [('read', [2], ('dict', []), 0)],
                                                             'position': 2},
 "dummy/header={'sar_data_record_length': 17}/rpc=2": {'result': ('raised', 'builtins', 'KeyError', "'number_of_sar_data_records'"),
                                                       'summary': None,
                                                       'requests': [('read', [2], ('dict', []), 0)],
                                                       'position': 2},
 "dummy/header={'sar_data_record_length': 17}/rpc=None": {'result': ('raised', 'builtins', 'KeyError', "'number_of_sar_data_records'"),
                                                          'summary': None,
                                                          'requests': [('read', [2], ('dict', []), 0)],
                                                          'position': 2},
 "dummy/header={'number_of_sar_data_records': 3, 'sar_data_record_length': 17, 'extra': (1, 2)}/rpc=2": {'result': ('returned',
                                                                                                                    (('dict',
                                                                                                                      [('number_of_sar_data_records', 3),
                                                                                                                       ('sar_data_record_length', 17),
                                                                                                                       ('extra', (1, 2))]),
                                                                                                                     [('dict',
                                                                                                                       [('preamble',
                                                                                                                         ('dict',
                                                                                                                          [('record_sequence_number', 1),
                                                                                                                           ('first_record_subtype', 50),
                                                                                                                           ('record_type', 11),
                                                                                                                           ('second_record_subtype', 18),
                                                                                                                           ('third_record_subtype', 20),
                                                                                                                           ('record_length', 17)])),
                                                                                                                        ('record_start', 732), ('a', 3),
                                                                                                                        ('data',
                                                                                                                         ('dict',
                                                                                                                          [('start', 733), ('stop', 737)]))]),
                                                                                                                      ('dict',
                                                                                                                       [('preamble',
                                                                                                                         ('dict',
                                                                                                                          [('record_sequence_number', 2),
                                                                                                                           ('first_record_subtype', 50),
                                                                                                                           ('record_type', 11),
                                                                                                                           ('second_record_subtype', 18),
                                                                                                                           ('third_record_subtype', 20),
                                                                                                                           ('record_length', 17)])),
                                                                                                                        ('record_start', 749), ('a', 4),
                                                                                                                        ('data',
                                                                                                                         ('dict',
                                                                                                                          [('start', 750), ('stop', 754)]))]),
                                                                                                                      ('dict',
                                                                                                                       [('preamble',
                                                                                                                         ('dict',
                                                                                                                          [('record_sequence_number', 3),
                                                                                                                           ('first_record_subtype', 50),
                                                                                                                           ('record_type', 11),
                                                                                                                           ('second_record_subtype', 18),
                                                                                                                           ('third_record_subtype', 20),
                                                                                                                           ('record_length', 17)])),
                                                                                                                        ('record_start', 766), ('a', 5),
                                                                                                                        ('data',
                                                                                                                         ('dict',
                                                                                                                          [('start', 767),
                                                                                                                           ('stop', 771)]))])])),
                                                                                                         'summary': ('tuple', 'dict', 'list', 3,
                                                                                                                     [('dict', 732,
                                                                                                                       ('dict',
                                                                                                                        [('start', 733), ('stop', 737)])),
                                                                                                                      ('dict', 749,
                                                                                                                       ('dict',
                                                                                                                        [('start', 750), ('stop', 754)])),
                                                                                                                      ('dict', 766,
                                                                                                                       ('dict',
                                                                                                                        [('start', 767), ('stop', 771)]))]),
                                                                                                         'requests': [('read', [2], ('dict', []), 0),
                                                                                                                      ('read', [34], ('dict', []), 2),
                                                                                                                      ('read', [17], ('dict', []), 36)],
                                                                                                         'position': 53},
 "dummy/header={'number_of_sar_data_records': 3, 'sar_data_record_length': 17, 'extra': (1, 2)}/rpc=None": {'result': ('raised', 'builtins', 'TypeError',
                                                                                                                       'unsupported operand type(s) for /: '
                                                                                                                       "'int' and 'NoneType'"),
                                                                                                            'summary': None,
                                                                                                            'requests': [('read', [2], ('dict', []), 0)],
                                                                                                            'position': 2},
 "dummy/header={'number_of_sar_data_records': 3.0, 'sar_data_record_length': 17}/rpc=2": {'result': ('raised', 'builtins', 'TypeError',
                                                                                                     "argument should be integer or None, not 'float'"),
                                                                                          'summary': None,
                                                                                          'requests': [('read', [2], ('dict', []), 0),
                                                                                                       ('read', [34], ('dict', []), 2),
                                                                                                       ('read', [17.0], ('dict', []), 36)],
                                                                                          'position': 36},
 "dummy/header={'number_of_sar_data_records': 3.0, 'sar_data_record_length': 17}/rpc=None": {'result': ('raised', 'builtins', 'TypeError',
                                                                                                        "unsupported operand type(s) for /: 'float' and "
                                                                                                        "'NoneType'"),
                                                                                             'summary': None,
                                                                                             'requests': [('read', [2], ('dict', []), 0)],
                                                                                             'position': 2},
 "dummy/header={'number_of_sar_data_records': 2.5, 'sar_data_record_length': 17}/rpc=2": {'result': ('raised', 'builtins', 'TypeError',
                                                                                                     "argument should be integer or None, not 'float'"),
                                                                                          'summary': None,
                                                                                          'requests': [('read', [2], ('dict', []), 0),
                                                                                                       ('read', [34], ('dict', []), 2),
                                                                                                       ('read', [8.5], ('dict', []), 36)],
                                                                                          'position': 36},
 "dummy/header={'number_of_sar_data_records': 2.5, 'sar_data_record_length': 17}/rpc=None": {'result': ('raised', 'builtins', 'TypeError',
                                                                                                        "unsupported operand type(s) for /: 'float' and "
                                                                                                        "'NoneType'"),
                                                                                             'summary': None,
                                                                                             'requests': [('read', [2], ('dict', []), 0)],
                                                                                             'position': 2},
 "dummy/header={'number_of_sar_data_records': '3', 'sar_data_record_length': 17}/rpc=2": {'result': ('raised', 'builtins', 'TypeError',
                                                                                                     "unsupported operand type(s) for /: 'str' and 'int'"),
                                                                                          'summary': None,
                                                                                          'requests': [('read', [2], ('dict', []), 0)],
                                                                                          'position': 2},
 "dummy/header={'number_of_sar_data_records': '3', 'sar_data_record_length': 17}/rpc=None": {'result': ('raised', 'builtins', 'TypeError',
                                                                                                        "unsupported operand type(s) for /: 'str' and "
                                                                                                        "'NoneType'"),
                                                                                             'summary': None,
                                                                                             'requests': [('read', [2], ('dict', []), 0)],
                                                                                             'position': 2},
 "dummy/header={'number_of_sar_data_records': 3, 'sar_data_record_length': '17'}/rpc=2": {'result': ('raised', 'builtins', 'TypeError',
                                                                                                     'can only concatenate str (not "int") to str'),
                                                                                          'summary': None,
                                                                                          'requests': [('read', [2], ('dict', []), 0)],
                                                                                          'position': 2},
 "dummy/header={'number_of_sar_data_records': 3, 'sar_data_record_length': '17'}/rpc=None": {'result': ('raised', 'builtins', 'TypeError',
                                                                                                        "unsupported operand type(s) for /: 'int' and "
                                                                                                        "'NoneType'"),
                                                                                             'summary': None,
                                                                                             'requests': [('read', [2], ('dict', []), 0)],
                                                                                             'position': 2},
 "dummy/header={'number_of_sar_data_records': None, 'sar_data_record_length': 17}/rpc=2": {'result': ('raised', 'builtins', 'TypeError',
                                                                                                      "unsupported operand type(s) for /: 'NoneType' and "
                                                                                                      "'int'"),
                                                                                           'summary': None,
                                                                                           'requests': [('read', [2], ('dict', []), 0)],
                                                                                           'position': 2},
 "dummy/header={'number_of_sar_data_records': None, 'sar_data_record_length': 17}/rpc=None": {'result': ('raised', 'builtins', 'TypeError',
                                                                                                         "unsupported operand type(s) for /: 'NoneType' and "
                                                                                                         "'NoneType'"),
                                                                                              'summary': None,
                                                                                              'requests': [('read', [2], ('dict', []), 0)],
                                                                                              'position': 2},
 "dummy/header={'number_of_sar_data_records': 3, 'sar_data_record_length': None}/rpc=2": {'result': ('raised', 'builtins', 'TypeError',
                                                                                                     "unsupported operand type(s) for *: 'int' and 'NoneType'"),
                                                                                          'summary': None,
                                                                                          'requests': [('read', [2], ('dict', []), 0)],
                                                                                          'position': 2},
 "dummy/header={'number_of_sar_data_records': 3, 'sar_data_record_length': None}/rpc=None": {'result': ('raised', 'builtins', 'TypeError',
                                                                                                        "unsupported operand type(s) for /: 'int' and "
                                                                                                        "'NoneType'"),
                                                                                             'summary': None,
                                                                                             'requests': [('read', [2], ('dict', []), 0)],
                                                                                             'position': 2},
 'dummy/spies': {'result': ('returned',
                            (('dict', [('number_of_sar_data_records', 5), ('sar_data_record_length', 17)]),
                             [('dict',
                               [('preamble',
                                 ('dict',
                                  [('record_sequence_number', 1), ('first_record_subtype', 50), ('record_type', 11), ('second_record_subtype', 18),
                                   ('third_record_subtype', 20), ('record_length', 17)])),
                                ('record_start', 732), ('a', 3), ('data', ('dict', [('start', 733), ('stop', 737)]))]),
                              ('dict',
                               [('preamble',
                                 ('dict',
                                  [('record_sequence_number', 2), ('first_record_subtype', 50), ('record_type', 11), ('second_record_subtype', 18),
                                   ('third_record_subtype', 20), ('record_length', 17)])),
                                ('record_start', 749), ('a', 4), ('data', ('dict', [('start', 750), ('stop', 754)]))]),
                              ('dict',
                               [('preamble',
                                 ('dict',
                                  [('record_sequence_number', 3), ('first_record_subtype', 50), ('record_type', 11), ('second_record_subtype', 18),
                                   ('third_record_subtype', 20), ('record_length', 17)])),
                                ('record_start', 766), ('a', 5), ('data', ('dict', [('start', 767), ('stop', 771)]))]),
                              ('dict',
                               [('preamble',
                                 ('dict',
                                  [('record_sequence_number', 4), ('first_record_subtype', 50), ('record_type', 11), ('second_record_subtype', 18),
                                   ('third_record_subtype', 20), ('record_length', 17)])),
                                ('record_start', 783), ('a', 6), ('data', ('dict', [('start', 784), ('stop', 788)]))]),
                              ('dict',
                               [('preamble',
                                 ('dict',
                                  [('record_sequence_number', 5), ('first_record_subtype', 50), ('record_type', 11), ('second_record_subtype', 18),
                                   ('third_record_subtype', 20), ('record_length', 17)])),
                                ('record_start', 800), ('a', 7), ('data', ('dict', [('start', 801), ('stop', 805)]))])])),
                 'summary': ('tuple', 'dict', 'list', 5,
                             [('dict', 732, ('dict', [('start', 733), ('stop', 737)])), ('dict', 749, ('dict', [('start', 750), ('stop', 754)])),
                              ('dict', 766, ('dict', [('start', 767), ('stop', 771)])), ('dict', 783, ('dict', [('start', 784), ('stop', 788)])),
                              ('dict', 800, ('dict', [('start', 801), ('stop', 805)]))]),
                 'requests': [('read', [2], ('dict', []), 0), ('read', [34], ('dict', []), 2), ('read', [34], ('dict', []), 36),
                              ('read', [17], ('dict', []), 70)],
                 'position': 87},
 'dummy/spies/calls': [('parse_chunk', 34, 17), ('adjust_offsets', 2, 720), ('parse_chunk', 34, 17), ('adjust_offsets', 2, 754), ('parse_chunk', 17, 17),
                       ('adjust_offsets', 1, 788)],
 'module/names': ['adjust_offsets', 'parse_chunk', 'read_file_descriptor', 'read_metadata', 'record_preamble', 'record_types'],
 'module/signature': '(f, records_per_chunk=1024)'}
# === END RECORDED ===

if __name__ == "__main__":
    sys.exit(main())
