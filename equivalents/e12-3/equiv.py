"""Equivalence check for refactoring 3 (``ceos_alos2.sar_image.filename_to_groupname``).

Usage::

    PYTHONPATH=<worktree> python _eq/3/equiv.py            # check against the recorded outcomes
    PYTHONPATH=<worktree> python _eq/3/equiv.py --record   # print the outcomes (run on clean HEAD)

It is also collectable by pytest (``test_equivalence``).

The outcomes in ``EXPECTED`` were recorded from the unchanged code (HEAD).
"""

import collections
import itertools
import pathlib
import sys

from ceos_alos2 import sar_image


def exc_chain(e):
    parts = []
    while e is not None:
        parts.append((type(e).__module__, type(e).__qualname__, str(e)))
        e = e.__cause__ or e.__context__
    return parts


def outcome(fn, *args, **kwargs):
    try:
        result = fn(*args, **kwargs)
    except BaseException as e:  # noqa: B902
        return repr(("raise", exc_chain(e)))
    return repr(("ok", type(result).__name__, result))


class LoggingDict(dict):
    """dict logging the order in which it is queried"""

    def __init__(self, *args, **kwargs):
        super().__init__(*args, **kwargs)
        self.log = []

    def __contains__(self, key):
        self.log.append(("contains", key))
        return super().__contains__(key)

    def __getitem__(self, key):
        self.log.append(("getitem", key))
        return super().__getitem__(key)

    def get(self, key, default=None):
        self.log.append(("get", key, default))
        return super().get(key, default)

    def __iter__(self):
        self.log.append(("iter",))
        return super().__iter__()

    def keys(self):
        self.log.append(("keys",))
        return super().keys()

    def items(self):
        self.log.append(("items",))
        return super().items()


class Text(str):
    """str subclass: results must stay exactly what they were (type included)"""


def cases():
    out = {}

    def add(name, *args, **kwargs):
        assert name not in out, name
        out[name] = outcome(sar_image.filename_to_groupname, *args, **kwargs)

    # --- valid names: every combination of file type, polarization, scene, product and scan info
    filetypes = ["IMG", "LED", "VOL", "TRL"]
    polarizations = [None, "HH", "HV", "VH", "VV"]
    scenes = ["ALOS2225333100-180726", "ALOS2290760600-191011", "AB0C1000010002-000101"]
    products = ["WWDR1.1__D", "WWDR1.5RUA", "FBDR1.5GUD", "HBQL1.1__A", "UBSL3.1GMA", "VBDR1.0__D"]
    scan_infos = [None] + [f"{m}{n}" for m in "BF" for n in range(10)]
    # (the outcomes of all file type / scene / product variants are collected per combination of
    # polarization and scan info: 72 names each)
    grouped = collections.defaultdict(set)
    for ftype, pol, scene, product, scan in itertools.product(
        filetypes, polarizations, scenes, products, scan_infos
    ):
        name = "-".join(part for part in (ftype, pol, scene, product, scan) if part is not None)
        grouped[f"valid:pol={pol}:scan={scan}"].add(
            outcome(sar_image.filename_to_groupname, name)
        )
    for key, outcomes in grouped.items():
        out[key] = repr(sorted(outcomes))
    out["valid-count"] = repr(sum(1 for _ in itertools.product(
        filetypes, polarizations, scenes, products, scan_infos
    )))

    # --- the examples from the test-suite
    add("suite-1", "IMG-HH-ALOS2225333100-180726-WWDR1.1__D-B3")
    add("suite-2", "IMG-HV-ALOS2290760600-191011-WWDR1.5RUA")

    # --- invalid names
    invalid = [
        "",
        "IMG",
        "IMG-",
        "img-HH-ALOS2225333100-180726-WWDR1.1__D",
        "IMG-HX-ALOS2225333100-180726-WWDR1.1__D",
        "IMG-H-ALOS2225333100-180726-WWDR1.1__D",
        "IMG-HHH-ALOS2225333100-180726-WWDR1.1__D",
        "IMG--ALOS2225333100-180726-WWDR1.1__D",
        "IMG-HH-ALOS222533310-180726-WWDR1.1__D",
        "IMG-HH-ALOS2225333100-18072-WWDR1.1__D",
        "IMG-HH-ALOS2225333100-180726-WWDR1.1__",
        "IMG-HH-ALOS2225333100-180726-WWDR1.1__D-",
        "IMG-HH-ALOS2225333100-180726-WWDR1.1__D-B",
        "IMG-HH-ALOS2225333100-180726-WWDR1.1__D-X3",
        "IMG-HH-ALOS2225333100-180726-WWDR1.1__D-B33",
        "IMG-HH-ALOS2225333100-180726-WWDR1.1__D-B3 ",
        " IMG-HH-ALOS2225333100-180726-WWDR1.1__D-B3",
        "IMG-HH-ALOS2225333100-180726-WWDR1.1__D-B3\n",
        "IMG-HH-ALOS2225333100-180726-WWDR1.1__D.index",
        "dir/IMG-HH-ALOS2225333100-180726-WWDR1.1__D",
        "/IMG-HH-ALOS2225333100-180726-WWDR1.1__D",
        "summary.txt",
        # name matches, scene id / product id do not
        "IMG-HH-alos2225333100-180726-WWDR1.1__D",
        "IMG-HH-ALOS22253331AB-180726-WWDR1.1__D",
        "IMG-HH-ALOS2225333100-189999-WWDR1.1__D",
        "IMG-HH-ALOS2225333100-180726-XXXR1.1__D",
        "IMG-HH-ALOS2225333100-180726-WWDX1.1__D",
        "IMG-HH-ALOS2225333100-180726-WWDR2.1__D",
        "IMG-HH-ALOS2225333100-180726-WWDR1.1X_D",
        "IMG-HH-ALOS2225333100-180726-WWDR1.1_XD",
        "IMG-HH-ALOS2225333100-180726-WWDR1.1__X",
        "IMG-HH-ALOS2225333100-180726-wwdr1.1__d",
        "IMG-HH-ALOS2225333100-180726-WWDR1.1__D-b3",
    ]
    for index, name in enumerate(invalid):
        add(f"invalid-{index}:{name!r}", name)

    # --- other argument types
    add("type-str-subclass", Text("IMG-HH-ALOS2225333100-180726-WWDR1.1__D-B3"))
    add("type-str-subclass-nopol", Text("IMG-ALOS2225333100-180726-WWDR1.1__D"))
    add("type-bytes", b"IMG-HH-ALOS2225333100-180726-WWDR1.1__D-B3")
    add("type-none", None)
    add("type-int", 3)
    add("type-path", pathlib.PurePosixPath("IMG-HH-ALOS2225333100-180726-WWDR1.1__D-B3"))
    add("type-list", ["IMG-HH-ALOS2225333100-180726-WWDR1.1__D-B3"])
    add("keyword", path="IMG-VV-ALOS2225333100-180726-WWDR1.1__D-F7")
    add("no-arguments")
    add("wrong-keyword", fname="IMG-VV-ALOS2225333100-180726-WWDR1.1__D-F7")

    # --- decode_filename is looked up on the package at call time; feed hand-made mappings
    infos = {
        "empty": {},
        "pol-none": {"polarization": None},
        "pol-empty": {"polarization": ""},
        "pol-only": {"polarization": "HH"},
        "scan-only": {"scan_number": "3"},
        "scan-empty": {"scan_number": ""},
        "scan-none": {"scan_number": None},
        "scan-int": {"scan_number": 0},
        "scan-int-pol": {"scan_number": 7, "polarization": "VV"},
        "pol-empty-scan": {"polarization": "", "scan_number": "1"},
        "pol-none-scan": {"polarization": None, "scan_number": "1"},
        "both": {"polarization": "HV", "scan_number": "9", "filetype": "IMG"},
        "pol-int": {"polarization": 5},
        "pol-int-scan": {"polarization": 5, "scan_number": "2"},
        "pol-zero-scan": {"polarization": 0, "scan_number": "2"},
        "pol-list": {"polarization": ["HH"], "scan_number": "2"},
        "pol-bytes": {"polarization": b"HH"},
        "pol-subclass": {"polarization": Text("HH")},
        "pol-subclass-scan": {"polarization": Text("HH"), "scan_number": Text("4")},
        "ordered": collections.OrderedDict(scan_number="5", polarization="VH"),
        "defaultdict": collections.defaultdict(lambda: "X", polarization="VH"),
        "not-a-mapping": None,
        "list": ["polarization", "scan_number"],
    }
    calls = []
    original = sar_image.decode_filename
    try:
        for label, info in infos.items():

            def fake(fname, info=info):
                calls.append(fname)
                return info

            sar_image.decode_filename = fake
            add(f"info-{label}", f"name-{label}")

        for label, content in (
            ("both", {"polarization": "HV", "scan_number": "9"}),
            ("pol", {"polarization": "HV"}),
            ("scan", {"scan_number": "9"}),
            ("none", {}),
            ("bad-pol", {"polarization": 1, "scan_number": "9"}),
        ):
            info = LoggingDict(content)
            sar_image.decode_filename = lambda fname, info=info: info
            add(f"logging-{label}", f"name-logging-{label}")
            out[f"logging-{label}-queries"] = repr(info.log)

        def failing(fname):
            raise KeyError(fname)

        sar_image.decode_filename = failing
        add("info-raises", "anything")
    finally:
        sar_image.decode_filename = original
    out["decode-calls"] = repr(calls)

    return out


EXPECTED = {
 'valid:pol=None:scan=None': '["(\'ok\', \'str\', \'\')"]',
 'valid:pol=None:scan=B0': '["(\'ok\', \'str\', \'scan0\')"]',
 'valid:pol=None:scan=B1': '["(\'ok\', \'str\', \'scan1\')"]',
 'valid:pol=None:scan=B2': '["(\'ok\', \'str\', \'scan2\')"]',
 'valid:pol=None:scan=B3': '["(\'ok\', \'str\', \'scan3\')"]',
 'valid:pol=None:scan=B4': '["(\'ok\', \'str\', \'scan4\')"]',
 'valid:pol=None:scan=B5': '["(\'ok\', \'str\', \'scan5\')"]',
 'valid:pol=None:scan=B6': '["(\'ok\', \'str\', \'scan6\')"]',
 'valid:pol=None:scan=B7': '["(\'ok\', \'str\', \'scan7\')"]',
 'valid:pol=None:scan=B8': '["(\'ok\', \'str\', \'scan8\')"]',
 'valid:pol=None:scan=B9': '["(\'ok\', \'str\', \'scan9\')"]',
 'valid:pol=None:scan=F0': '["(\'ok\', \'str\', \'scan0\')"]',
 'valid:pol=None:scan=F1': '["(\'ok\', \'str\', \'scan1\')"]',
 'valid:pol=None:scan=F2': '["(\'ok\', \'str\', \'scan2\')"]',
 'valid:pol=None:scan=F3': '["(\'ok\', \'str\', \'scan3\')"]',
 'valid:pol=None:scan=F4': '["(\'ok\', \'str\', \'scan4\')"]',
 'valid:pol=None:scan=F5': '["(\'ok\', \'str\', \'scan5\')"]',
 'valid:pol=None:scan=F6': '["(\'ok\', \'str\', \'scan6\')"]',
 'valid:pol=None:scan=F7': '["(\'ok\', \'str\', \'scan7\')"]',
 'valid:pol=None:scan=F8': '["(\'ok\', \'str\', \'scan8\')"]',
 'valid:pol=None:scan=F9': '["(\'ok\', \'str\', \'scan9\')"]',
 'valid:pol=HH:scan=None': '["(\'ok\', \'str\', \'HH\')"]',
 'valid:pol=HH:scan=B0': '["(\'ok\', \'str\', \'HH_scan0\')"]',
 'valid:pol=HH:scan=B1': '["(\'ok\', \'str\', \'HH_scan1\')"]',
 'valid:pol=HH:scan=B2': '["(\'ok\', \'str\', \'HH_scan2\')"]',
 'valid:pol=HH:scan=B3': '["(\'ok\', \'str\', \'HH_scan3\')"]',
 'valid:pol=HH:scan=B4': '["(\'ok\', \'str\', \'HH_scan4\')"]',
 'valid:pol=HH:scan=B5': '["(\'ok\', \'str\', \'HH_scan5\')"]',
 'valid:pol=HH:scan=B6': '["(\'ok\', \'str\', \'HH_scan6\')"]',
 'valid:pol=HH:scan=B7': '["(\'ok\', \'str\', \'HH_scan7\')"]',
 'valid:pol=HH:scan=B8': '["(\'ok\', \'str\', \'HH_scan8\')"]',
 'valid:pol=HH:scan=B9': '["(\'ok\', \'str\', \'HH_scan9\')"]',
 'valid:pol=HH:scan=F0': '["(\'ok\', \'str\', \'HH_scan0\')"]',
 'valid:pol=HH:scan=F1': '["(\'ok\', \'str\', \'HH_scan1\')"]',
 'valid:pol=HH:scan=F2': '["(\'ok\', \'str\', \'HH_scan2\')"]',
 'valid:pol=HH:scan=F3': '["(\'ok\', \'str\', \'HH_scan3\')"]',
 'valid:pol=HH:scan=F4': '["(\'ok\', \'str\', \'HH_scan4\')"]',
 'valid:pol=HH:scan=F5': '["(\'ok\', \'str\', \'HH_scan5\')"]',
 'valid:pol=HH:scan=F6': '["(\'ok\', \'str\', \'HH_scan6\')"]',
 'valid:pol=HH:scan=F7': '["(\'ok\', \'str\', \'HH_scan7\')"]',
 'valid:pol=HH:scan=F8': '["(\'ok\', \'str\', \'HH_scan8\')"]',
 'valid:pol=HH:scan=F9': '["(\'ok\', \'str\', \'HH_scan9\')"]',
 'valid:pol=HV:scan=None': '["(\'ok\', \'str\', \'HV\')"]',
 'valid:pol=HV:scan=B0': '["(\'ok\', \'str\', \'HV_scan0\')"]',
 'valid:pol=HV:scan=B1': '["(\'ok\', \'str\', \'HV_scan1\')"]',
 'valid:pol=HV:scan=B2': '["(\'ok\', \'str\', \'HV_scan2\')"]',
 'valid:pol=HV:scan=B3': '["(\'ok\', \'str\', \'HV_scan3\')"]',
 'valid:pol=HV:scan=B4': '["(\'ok\', \'str\', \'HV_scan4\')"]',
 'valid:pol=HV:scan=B5': '["(\'ok\', \'str\', \'HV_scan5\')"]',
 'valid:pol=HV:scan=B6': '["(\'ok\', \'str\', \'HV_scan6\')"]',
 'valid:pol=HV:scan=B7': '["(\'ok\', \'str\', \'HV_scan7\')"]',
 'valid:pol=HV:scan=B8': '["(\'ok\', \'str\', \'HV_scan8\')"]',
 'valid:pol=HV:scan=B9': '["(\'ok\', \'str\', \'HV_scan9\')"]',
 'valid:pol=HV:scan=F0': '["(\'ok\', \'str\', \'HV_scan0\')"]',
 'valid:pol=HV:scan=F1': '["(\'ok\', \'str\', \'HV_scan1\')"]',
 'valid:pol=HV:scan=F2': '["(\'ok\', \'str\', \'HV_scan2\')"]',
 'valid:pol=HV:scan=F3': '["(\'ok\', \'str\', \'HV_scan3\')"]',
 'valid:pol=HV:scan=F4': '["(\'ok\', \'str\', \'HV_scan4\')"]',
 'valid:pol=HV:scan=F5': '["(\'ok\', \'str\', \'HV_scan5\')"]',
 'valid:pol=HV:scan=F6': '["(\'ok\', \'str\', \'HV_scan6\')"]',
 'valid:pol=HV:scan=F7': '["(\'ok\', \'str\', \'HV_scan7\')"]',
 'valid:pol=HV:scan=F8': '["(\'ok\', \'str\', \'HV_scan8\')"]',
 'valid:pol=HV:scan=F9': '["(\'ok\', \'str\', \'HV_scan9\')"]',
 'valid:pol=VH:scan=None': '["(\'ok\', \'str\', \'VH\')"]',
 'valid:pol=VH:scan=B0': '["(\'ok\', \'str\', \'VH_scan0\')"]',
 'valid:pol=VH:scan=B1': '["(\'ok\', \'str\', \'VH_scan1\')"]',
 'valid:pol=VH:scan=B2': '["(\'ok\', \'str\', \'VH_scan2\')"]',
 'valid:pol=VH:scan=B3': '["(\'ok\', \'str\', \'VH_scan3\')"]',
 'valid:pol=VH:scan=B4': '["(\'ok\', \'str\', \'VH_scan4\')"]',
 'valid:pol=VH:scan=B5': '["(\'ok\', \'str\', \'VH_scan5\')"]',
 'valid:pol=VH:scan=B6': '["(\'ok\', \'str\', \'VH_scan6\')"]',
 'valid:pol=VH:scan=B7': '["(\'ok\', \'str\', \'VH_scan7\')"]',
 'valid:pol=VH:scan=B8': '["(\'ok\', \'str\', \'VH_scan8\')"]',
 'valid:pol=VH:scan=B9': '["(\'ok\', \'str\', \'VH_scan9\')"]',
 'valid:pol=VH:scan=F0': '["(\'ok\', \'str\', \'VH_scan0\')"]',
 'valid:pol=VH:scan=F1': '["(\'ok\', \'str\', \'VH_scan1\')"]',
 'valid:pol=VH:scan=F2': '["(\'ok\', \'str\', \'VH_scan2\')"]',
 'valid:pol=VH:scan=F3': '["(\'ok\', \'str\', \'VH_scan3\')"]',
 'valid:pol=VH:scan=F4': '["(\'ok\', \'str\', \'VH_scan4\')"]',
 'valid:pol=VH:scan=F5': '["(\'ok\', \'str\', \'VH_scan5\')"]',
 'valid:pol=VH:scan=F6': '["(\'ok\', \'str\', \'VH_scan6\')"]',
 'valid:pol=VH:scan=F7': '["(\'ok\', \'str\', \'VH_scan7\')"]',
 'valid:pol=VH:scan=F8': '["(\'ok\', \'str\', \'VH_scan8\')"]',
 'valid:pol=VH:scan=F9': '["(\'ok\', \'str\', \'VH_scan9\')"]',
 'valid:pol=VV:scan=None': '["(\'ok\', \'str\', \'VV\')"]',
 'valid:pol=VV:scan=B0': '["(\'ok\', \'str\', \'VV_scan0\')"]',
 'valid:pol=VV:scan=B1': '["(\'ok\', \'str\', \'VV_scan1\')"]',
 'valid:pol=VV:scan=B2': '["(\'ok\', \'str\', \'VV_scan2\')"]',
 'valid:pol=VV:scan=B3': '["(\'ok\', \'str\', \'VV_scan3\')"]',
 'valid:pol=VV:scan=B4': '["(\'ok\', \'str\', \'VV_scan4\')"]',
 'valid:pol=VV:scan=B5': '["(\'ok\', \'str\', \'VV_scan5\')"]',
 'valid:pol=VV:scan=B6': '["(\'ok\', \'str\', \'VV_scan6\')"]',
 'valid:pol=VV:scan=B7': '["(\'ok\', \'str\', \'VV_scan7\')"]',
 'valid:pol=VV:scan=B8': '["(\'ok\', \'str\', \'VV_scan8\')"]',
 'valid:pol=VV:scan=B9': '["(\'ok\', \'str\', \'VV_scan9\')"]',
 'valid:pol=VV:scan=F0': '["(\'ok\', \'str\', \'VV_scan0\')"]',
 'valid:pol=VV:scan=F1': '["(\'ok\', \'str\', \'VV_scan1\')"]',
 'valid:pol=VV:scan=F2': '["(\'ok\', \'str\', \'VV_scan2\')"]',
 'valid:pol=VV:scan=F3': '["(\'ok\', \'str\', \'VV_scan3\')"]',
 'valid:pol=VV:scan=F4': '["(\'ok\', \'str\', \'VV_scan4\')"]',
 'valid:pol=VV:scan=F5': '["(\'ok\', \'str\', \'VV_scan5\')"]',
 'valid:pol=VV:scan=F6': '["(\'ok\', \'str\', \'VV_scan6\')"]',
 'valid:pol=VV:scan=F7': '["(\'ok\', \'str\', \'VV_scan7\')"]',
 'valid:pol=VV:scan=F8': '["(\'ok\', \'str\', \'VV_scan8\')"]',
 'valid:pol=VV:scan=F9': '["(\'ok\', \'str\', \'VV_scan9\')"]',
 'valid-count': '7560',
 'suite-1': "('ok', 'str', 'HH_scan3')",
 'suite-2': "('ok', 'str', 'HV')",
 "invalid-0:''": "('raise', [('builtins', 'ValueError', 'invalid file name: ')])",
 "invalid-1:'IMG'": "('raise', [('builtins', 'ValueError', 'invalid file name: IMG')])",
 "invalid-2:'IMG-'": "('raise', [('builtins', 'ValueError', 'invalid file name: IMG-')])",
 "invalid-3:'img-HH-ALOS2225333100-180726-WWDR1.1__D'": "('raise', [('builtins', 'ValueError', "
                                                        "'invalid file name: "
                                                        "img-HH-ALOS2225333100-180726-WWDR1.1__D')])",
 "invalid-4:'IMG-HX-ALOS2225333100-180726-WWDR1.1__D'": "('raise', [('builtins', 'ValueError', "
                                                        "'invalid file name: "
                                                        "IMG-HX-ALOS2225333100-180726-WWDR1.1__D')])",
 "invalid-5:'IMG-H-ALOS2225333100-180726-WWDR1.1__D'": "('raise', [('builtins', 'ValueError', "
                                                       "'invalid file name: "
                                                       "IMG-H-ALOS2225333100-180726-WWDR1.1__D')])",
 "invalid-6:'IMG-HHH-ALOS2225333100-180726-WWDR1.1__D'": "('raise', [('builtins', 'ValueError', "
                                                         "'invalid file name: "
                                                         "IMG-HHH-ALOS2225333100-180726-WWDR1.1__D')])",
 "invalid-7:'IMG--ALOS2225333100-180726-WWDR1.1__D'": "('raise', [('builtins', 'ValueError', "
                                                      "'invalid file name: "
                                                      "IMG--ALOS2225333100-180726-WWDR1.1__D')])",
 "invalid-8:'IMG-HH-ALOS222533310-180726-WWDR1.1__D'": "('raise', [('builtins', 'ValueError', "
                                                       "'invalid file name: "
                                                       "IMG-HH-ALOS222533310-180726-WWDR1.1__D')])",
 "invalid-9:'IMG-HH-ALOS2225333100-18072-WWDR1.1__D'": "('raise', [('builtins', 'ValueError', "
                                                       "'invalid file name: "
                                                       "IMG-HH-ALOS2225333100-18072-WWDR1.1__D')])",
 "invalid-10:'IMG-HH-ALOS2225333100-180726-WWDR1.1__'": "('raise', [('builtins', 'ValueError', "
                                                        "'invalid file name: "
                                                        "IMG-HH-ALOS2225333100-180726-WWDR1.1__')])",
 "invalid-11:'IMG-HH-ALOS2225333100-180726-WWDR1.1__D-'": "('raise', [('builtins', 'ValueError', "
                                                          "'invalid file name: "
                                                          "IMG-HH-ALOS2225333100-180726-WWDR1.1__D-')])",
 "invalid-12:'IMG-HH-ALOS2225333100-180726-WWDR1.1__D-B'": "('raise', [('builtins', "
                                                           "'ValueError', 'invalid file name: "
                                                           "IMG-HH-ALOS2225333100-180726-WWDR1.1__D-B')])",
 "invalid-13:'IMG-HH-ALOS2225333100-180726-WWDR1.1__D-X3'": "('raise', [('builtins', "
                                                            "'ValueError', 'invalid file name: "
                                                            "IMG-HH-ALOS2225333100-180726-WWDR1.1__D-X3')])",
 "invalid-14:'IMG-HH-ALOS2225333100-180726-WWDR1.1__D-B33'": "('raise', [('builtins', "
                                                             "'ValueError', 'invalid file name: "
                                                             "IMG-HH-ALOS2225333100-180726-WWDR1.1__D-B33')])",
 "invalid-15:'IMG-HH-ALOS2225333100-180726-WWDR1.1__D-B3 '": "('raise', [('builtins', "
                                                             "'ValueError', 'invalid file name: "
                                                             'IMG-HH-ALOS2225333100-180726-WWDR1.1__D-B3 '
                                                             "')])",
 "invalid-16:' IMG-HH-ALOS2225333100-180726-WWDR1.1__D-B3'": "('raise', [('builtins', "
                                                             "'ValueError', 'invalid file name:  "
                                                             "IMG-HH-ALOS2225333100-180726-WWDR1.1__D-B3')])",
 "invalid-17:'IMG-HH-ALOS2225333100-180726-WWDR1.1__D-B3\\n'": "('raise', [('builtins', "
                                                               "'ValueError', 'invalid file "
                                                               'name: '
                                                               "IMG-HH-ALOS2225333100-180726-WWDR1.1__D-B3\\n')])",
 "invalid-18:'IMG-HH-ALOS2225333100-180726-WWDR1.1__D.index'": "('raise', [('builtins', "
                                                               "'ValueError', 'invalid file "
                                                               'name: '
                                                               "IMG-HH-ALOS2225333100-180726-WWDR1.1__D.index')])",
 "invalid-19:'dir/IMG-HH-ALOS2225333100-180726-WWDR1.1__D'": "('raise', [('builtins', "
                                                             "'ValueError', 'invalid file name: "
                                                             "dir/IMG-HH-ALOS2225333100-180726-WWDR1.1__D')])",
 "invalid-20:'/IMG-HH-ALOS2225333100-180726-WWDR1.1__D'": "('raise', [('builtins', 'ValueError', "
                                                          "'invalid file name: "
                                                          "/IMG-HH-ALOS2225333100-180726-WWDR1.1__D')])",
 "invalid-21:'summary.txt'": "('raise', [('builtins', 'ValueError', 'invalid file name: "
                             "summary.txt')])",
 "invalid-22:'IMG-HH-alos2225333100-180726-WWDR1.1__D'": "('raise', [('builtins', 'ValueError', "
                                                         "'invalid file name: "
                                                         "IMG-HH-alos2225333100-180726-WWDR1.1__D')])",
 "invalid-23:'IMG-HH-ALOS22253331AB-180726-WWDR1.1__D'": "('raise', [('builtins', 'ValueError', "
                                                         "'invalid scene id: "
                                                         "ALOS22253331AB-180726')])",
 "invalid-24:'IMG-HH-ALOS2225333100-189999-WWDR1.1__D'": "('raise', [('builtins', 'ValueError', "
                                                         "'invalid scene id: "
                                                         "ALOS2225333100-189999'), "
                                                         "('dateutil.parser._parser', "
                                                         "'ParserError', 'month must be in "
                                                         "1..12: 189999'), ('builtins', "
                                                         "'ValueError', 'month must be in "
                                                         "1..12')])",
 "invalid-25:'IMG-HH-ALOS2225333100-180726-XXXR1.1__D'": "('raise', [('builtins', 'ValueError', "
                                                         "'invalid product id: XXXR1.1__D'), "
                                                         "('builtins', 'ValueError', "
                                                         '"invalid code \'XXX\'")])',
 "invalid-26:'IMG-HH-ALOS2225333100-180726-WWDX1.1__D'": "('raise', [('builtins', 'ValueError', "
                                                         "'invalid product id: WWDX1.1__D')])",
 "invalid-27:'IMG-HH-ALOS2225333100-180726-WWDR2.1__D'": "('raise', [('builtins', 'ValueError', "
                                                         "'invalid product id: WWDR2.1__D')])",
 "invalid-28:'IMG-HH-ALOS2225333100-180726-WWDR1.1X_D'": "('raise', [('builtins', 'ValueError', "
                                                         "'invalid product id: WWDR1.1X_D')])",
 "invalid-29:'IMG-HH-ALOS2225333100-180726-WWDR1.1_XD'": "('raise', [('builtins', 'ValueError', "
                                                         "'invalid product id: WWDR1.1_XD')])",
 "invalid-30:'IMG-HH-ALOS2225333100-180726-WWDR1.1__X'": "('raise', [('builtins', 'ValueError', "
                                                         "'invalid product id: WWDR1.1__X')])",
 "invalid-31:'IMG-HH-ALOS2225333100-180726-wwdr1.1__d'": "('raise', [('builtins', 'ValueError', "
                                                         "'invalid file name: "
                                                         "IMG-HH-ALOS2225333100-180726-wwdr1.1__d')])",
 "invalid-32:'IMG-HH-ALOS2225333100-180726-WWDR1.1__D-b3'": "('raise', [('builtins', "
                                                            "'ValueError', 'invalid file name: "
                                                            "IMG-HH-ALOS2225333100-180726-WWDR1.1__D-b3')])",
 'type-str-subclass': "('ok', 'str', 'HH_scan3')",
 'type-str-subclass-nopol': "('ok', 'str', '')",
 'type-bytes': "('raise', [('builtins', 'TypeError', 'cannot use a string pattern on a "
               "bytes-like object')])",
 'type-none': '(\'raise\', [(\'builtins\', \'TypeError\', "expected string or bytes-like object, '
              'got \'NoneType\'")])',
 'type-int': '(\'raise\', [(\'builtins\', \'TypeError\', "expected string or bytes-like object, '
             'got \'int\'")])',
 'type-path': '(\'raise\', [(\'builtins\', \'TypeError\', "expected string or bytes-like object, '
              'got \'PurePosixPath\'")])',
 'type-list': '(\'raise\', [(\'builtins\', \'TypeError\', "expected string or bytes-like object, '
              'got \'list\'")])',
 'keyword': "('ok', 'str', 'VV_scan7')",
 'no-arguments': '(\'raise\', [(\'builtins\', \'TypeError\', "filename_to_groupname() missing 1 '
                 'required positional argument: \'path\'")])',
 'wrong-keyword': '(\'raise\', [(\'builtins\', \'TypeError\', "filename_to_groupname() got an '
                  'unexpected keyword argument \'fname\'")])',
 'info-empty': "('ok', 'str', '')",
 'info-pol-none': "('ok', 'str', '')",
 'info-pol-empty': "('ok', 'str', '')",
 'info-pol-only': "('ok', 'str', 'HH')",
 'info-scan-only': "('ok', 'str', 'scan3')",
 'info-scan-empty': "('ok', 'str', 'scan')",
 'info-scan-none': "('ok', 'str', 'scanNone')",
 'info-scan-int': "('ok', 'str', 'scan0')",
 'info-scan-int-pol': "('ok', 'str', 'VV_scan7')",
 'info-pol-empty-scan': "('ok', 'str', 'scan1')",
 'info-pol-none-scan': "('ok', 'str', 'scan1')",
 'info-both': "('ok', 'str', 'HV_scan9')",
 'info-pol-int': "('raise', [('builtins', 'TypeError', 'sequence item 0: expected str instance, "
                 "int found')])",
 'info-pol-int-scan': "('raise', [('builtins', 'TypeError', 'sequence item 0: expected str "
                      "instance, int found')])",
 'info-pol-zero-scan': "('ok', 'str', 'scan2')",
 'info-pol-list': "('raise', [('builtins', 'TypeError', 'sequence item 0: expected str instance, "
                  "list found')])",
 'info-pol-bytes': "('raise', [('builtins', 'TypeError', 'sequence item 0: expected str "
                   "instance, bytes found')])",
 'info-pol-subclass': "('ok', 'str', 'HH')",
 'info-pol-subclass-scan': "('ok', 'str', 'HH_scan4')",
 'info-ordered': "('ok', 'str', 'VH_scan5')",
 'info-defaultdict': "('ok', 'str', 'VH')",
 'info-not-a-mapping': '(\'raise\', [(\'builtins\', \'TypeError\', "argument of type '
                       '\'NoneType\' is not iterable")])',
 'info-list': "('raise', [('builtins', 'TypeError', 'list indices must be integers or slices, "
              "not str')])",
 'logging-both': "('ok', 'str', 'HV_scan9')",
 'logging-both-queries': "[('contains', 'scan_number'), ('getitem', 'scan_number'), ('get', "
                         "'polarization', None)]",
 'logging-pol': "('ok', 'str', 'HV')",
 'logging-pol-queries': "[('contains', 'scan_number'), ('get', 'polarization', None)]",
 'logging-scan': "('ok', 'str', 'scan9')",
 'logging-scan-queries': "[('contains', 'scan_number'), ('getitem', 'scan_number'), ('get', "
                         "'polarization', None)]",
 'logging-none': "('ok', 'str', '')",
 'logging-none-queries': "[('contains', 'scan_number'), ('get', 'polarization', None)]",
 'logging-bad-pol': "('raise', [('builtins', 'TypeError', 'sequence item 0: expected str "
                    "instance, int found')])",
 'logging-bad-pol-queries': "[('contains', 'scan_number'), ('getitem', 'scan_number'), ('get', "
                            "'polarization', None)]",
 'info-raises': '(\'raise\', [(\'builtins\', \'KeyError\', "\'anything\'")])',
 'decode-calls': "['name-empty', 'name-pol-none', 'name-pol-empty', 'name-pol-only', "
                 "'name-scan-only', 'name-scan-empty', 'name-scan-none', 'name-scan-int', "
                 "'name-scan-int-pol', 'name-pol-empty-scan', 'name-pol-none-scan', 'name-both', "
                 "'name-pol-int', 'name-pol-int-scan', 'name-pol-zero-scan', 'name-pol-list', "
                 "'name-pol-bytes', 'name-pol-subclass', 'name-pol-subclass-scan', "
                 "'name-ordered', 'name-defaultdict', 'name-not-a-mapping', 'name-list']",
}


def test_equivalence():
    actual = cases()
    assert set(actual) == set(EXPECTED)
    different = {k: (actual[k], EXPECTED[k]) for k in actual if actual[k] != EXPECTED[k]}
    assert not different, different


if __name__ == "__main__":
    if "--record" in sys.argv:
        import pprint

        pprint.pprint(cases(), width=100, sort_dicts=False)
    else:
        test_equivalence()
        print(f"OK: {len(EXPECTED)} outcomes identical ({sar_image.__file__})")
