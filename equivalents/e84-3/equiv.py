"""equivalence check for refactoring 3: the per-section transformer tables of
`ceos_alos2.summary` (`transform_scene_spec`, `transform_product_spec`,
`transform_image_info`, `transform_label_info`)

Runs the four functions (directly, repeatedly, through `transform_summary` and through
`open_summary`) on a spread of sections and compares a canonical description of the result
(values, key order, types, exception types, messages and chaining) with the description
recorded from the UNCHANGED code (commit 343c5cf). It also checks that the functions keep
using the *current* contents of the `ceos_alos2.decoders` module (so nothing was frozen at
import time).

run as a script (`python equiv.py`) or with pytest (`pytest equiv.py`).
"""

import sys

# --- shared description helpers (copied verbatim into every equiv.py) ---
import datetime


def describe_exc(e, depth=0):
    if e is None:
        return None
    if depth > 4:
        return ("exc", type(e).__name__, "...")
    out = {
        "type": type(e).__module__ + "." + type(e).__qualname__,
        "args": describe(e.args),
        "str": str(e),
        "cause": describe_exc(e.__cause__, depth + 1),
        "context": describe_exc(e.__context__, depth + 1),
        "suppress_context": e.__suppress_context__,
    }
    if hasattr(e, "exceptions"):
        out["exceptions"] = [describe_exc(sub, depth + 1) for sub in e.exceptions]
        out["message"] = e.message
    return out


def describe(obj):
    """canonical, order- and type-preserving description of a result"""
    from ceos_alos2.hierarchy import Group, Variable

    if isinstance(obj, Group):
        return {
            "Group": {
                "path": describe(obj.path),
                "url": describe(obj.url),
                "data": describe(obj.data),
                "attrs": describe(obj.attrs),
            }
        }
    if isinstance(obj, Variable):
        return {"Variable": [describe(obj.dims), repr(obj.data), describe(obj.attrs)]}
    if isinstance(obj, dict):
        return {"dict:" + type(obj).__name__: [[describe(k), describe(v)] for k, v in obj.items()]}
    if isinstance(obj, (list, tuple)):
        return {type(obj).__name__: [describe(v) for v in obj]}
    if isinstance(obj, BaseException):
        return {"exception-object": describe_exc(obj)}
    if isinstance(obj, (datetime.datetime, datetime.date)):
        return {type(obj).__name__: obj.isoformat()}
    return {type(obj).__name__: repr(obj)}


def run(func, *args, **kwargs):
    try:
        result = func(*args, **kwargs)
    except BaseException as e:  # noqa: B036 - we want StopIteration and friends, too
        return {"raised": describe_exc(e)}
    return {"returned": describe(result)}


import fsspec

from ceos_alos2 import decoders, summary

scene_specs = {
    "empty": {},
    "shift_only": {"SceneShift": "0"},
    "negative_shift": {"SceneShift": "-2"},
    "padded_shift": {"SceneShift": " +03 "},
    "id_only": {"SceneID": "ALOS2225333200-180726"},
    "id_and_shift": {"SceneID": "ALOS2225333200-180726", "SceneShift": "1"},
    "shift_and_id": {"SceneShift": "1", "SceneID": "ALOS2225333200-180726"},
    "leading_zeros": {"SceneID": "ALOS2000010007-000101"},
    "leap_day": {"SceneID": "ALOS2123456789-200229"},
    "last_century": {"SceneID": "ALOS2123456789-991231"},
    "unknown_keys": {"Other": "x", "SceneID": "ALOS2225333200-180726", "date": "kept?"},
    "key_collision_after": {"SceneID": "ALOS2225333200-180726", "scene_frame": "later"},
    "key_collision_before": {"scene_frame": "earlier", "SceneID": "ALOS2225333200-180726"},
    "nested_unknown": {"Other": {"a": 1, "b": {"c": 2}}, "SceneShift": "5"},
    # failures
    "bad_shift": {"SceneShift": "1.0"},
    "empty_shift": {"SceneShift": ""},
    "none_shift": {"SceneShift": None},
    "short_id": {"SceneID": "ALOS222533320-180726"},
    "trailing_id": {"SceneID": "ALOS2225333200-180726x"},
    "lowercase_id": {"SceneID": "alos2225333200-180726"},
    "impossible_date": {"SceneID": "ALOS2225333200-180732"},
    "impossible_month": {"SceneID": "ALOS2225333200-181301"},
    "no_leap_day": {"SceneID": "ALOS2123456789-190229"},
    "none_id": {"SceneID": None},
    "bytes_id": {"SceneID": b"ALOS2225333200-180726"},
    "bad_id_then_bad_shift": {"SceneID": "x", "SceneShift": "y"},
    "bad_shift_then_bad_id": {"SceneShift": "y", "SceneID": "x"},
}

product_specs = {
    "empty": {},
    "id_only": {"ProductID": "WWDR1.1__D"},
    "id_variants_1": {"ProductID": "SBSL1.0GUA"},
    "id_variants_2": {"ProductID": "FBQR1.5RPD"},
    "id_variants_3": {"ProductID": "VBDL3.1_MA"},
    "id_variants_4": {"ProductID": "HBQR1.1_LD"},
    "resampling_nn": {"ResamplingMethod": "NN"},
    "resampling_bl": {"ResamplingMethod": "BL"},
    "resampling_cc": {"ResamplingMethod": "CC"},
    "zone": {"UTM_ZoneNo": "54"},
    "passthroughs": {
        "MapDirection": "MapNorth",
        "OrbitDataPrecision": "Precision",
        "AttitudeDataPrecision": "Onboard",
    },
    "passthrough_non_strings": {"MapDirection": None, "OrbitDataPrecision": 3},
    "defaults_to_float": {"PixelSpacing": "2.5", "PSLatitude": "-1e3", "Inf": "inf", "Pad": " 1 "},
    "nan": {"Nan": "nan"},
    "typical": {
        "ProductID": "WWDR1.1__D",
        "ResamplingMethod": "NN",
        "UTM_ZoneNo": "0",
        "PSLatitude": "0.0",
        "MapDirection": "MapNorth",
        "OrbitDataPrecision": "Precision",
        "AttitudeDataPrecision": "Onboard",
    },
    "typical_reversed": {
        "AttitudeDataPrecision": "Onboard",
        "OrbitDataPrecision": "Precision",
        "MapDirection": "MapNorth",
        "PSLatitude": "0.0",
        "UTM_ZoneNo": "0",
        "ResamplingMethod": "NN",
        "ProductID": "WWDR1.1__D",
    },
    "key_collision": {"observation_mode": "1.5", "ProductID": "WWDR1.1__D", "orbit_direction": "2"},
    # failures
    "bad_id": {"ProductID": "WWDR1.1__"},
    "bad_id_mode": {"ProductID": "XXXR1.1__D"},
    "bad_id_level": {"ProductID": "WWDR2.1__D"},
    "bad_id_trailing": {"ProductID": "WWDR1.1__DD"},
    "none_id": {"ProductID": None},
    "bad_resampling": {"ResamplingMethod": "XX"},
    "lowercase_resampling": {"ResamplingMethod": "nn"},
    "empty_resampling": {"ResamplingMethod": ""},
    "none_resampling": {"ResamplingMethod": None},
    "unhashable_resampling": {"ResamplingMethod": ["NN"]},
    "bad_zone": {"UTM_ZoneNo": "54.0"},
    "bad_float": {"PixelSpacing": "two"},
    "none_float": {"PixelSpacing": None},
    "bad_float_then_bad_id": {"PixelSpacing": "two", "ProductID": "x"},
    "bad_id_then_bad_float": {"ProductID": "x", "PixelSpacing": "two"},
}

image_infos = {
    "empty": {},
    "float": {"OffNadirAngle": "21.3"},
    "datetime": {"SceneCenterDateTime": "20180726 13:09:44.204"},
    "several_datetimes": {
        "SceneCenterDateTime": "20180726 13:09:44.204",
        "SceneStartDateTime": "20180726 13:09:18.204",
        "SceneEndDateTime": "20180726 13:10:10.204",
    },
    "mixed": {
        "SceneCenterDateTime": "20180726 13:09:44.204",
        "ImageSceneCenterLatitude": "34.5",
        "SceneStartDateTime": "20180726 13:09:18.204",
        "ImageSceneCenterLongitude": "-135",
    },
    "datetime_in_the_middle_of_the_key": {"xDateTimeX": "20180726 1"},
    "key_is_datetime": {"DateTime": "20180726\t13:09"},
    "lowercase_datetime_key_is_float": {"datetime": "1"},
    "short_date": {"ADateTime": "2018 13:09"},
    "long_date": {"ADateTime": "201807261234 13:09"},
    "multiple_spaces": {"ADateTime": "  20180726    13:09:44  "},
    "not_a_date": {"ADateTime": "abc def"},
    # failures
    "datetime_without_time": {"ADateTime": "20180726"},
    "datetime_three_parts": {"ADateTime": "20180726 13:09 UTC"},
    "datetime_empty": {"ADateTime": ""},
    "datetime_none": {"ADateTime": None},
    "bad_float": {"OffNadirAngle": "steep"},
    "float_none": {"OffNadirAngle": None},
    "bad_float_then_bad_datetime": {"OffNadirAngle": "steep", "ADateTime": ""},
    "bad_datetime_then_bad_float": {"ADateTime": "", "OffNadirAngle": "steep"},
    "non_string_key": {1: "1"},
    "tuple_key": {("DateTime",): "20180726 13:09", ("Other",): "1"},
}

label_infos = {
    "empty": {},
    "sensor": {"Sensor": "SAR"},
    "date": {"ObservationDate": "20180726"},
    "short_date": {"ObservationDate": "2018"},
    "empty_date": {"ObservationDate": ""},
    "facility_scmo": {"ProcessFacility": "SCMO"},
    "facility_eics": {"ProcessFacility": "EICS"},
    "typical": {
        "Satellite": "ALOS2",
        "Sensor": "SAR",
        "ProcessLevel": "1.1",
        "ProcessFacility": "SCMO",
        "ObservationDate": "20180726",
    },
    "date_list": {"ObservationDate": list("20180726")},
    # failures
    "bad_facility": {"ProcessFacility": "JAXA"},
    "none_facility": {"ProcessFacility": None},
    "unhashable_facility": {"ProcessFacility": {}},
    "none_date": {"ObservationDate": None},
    "bad_facility_then_bad_date": {"ProcessFacility": "JAXA", "ObservationDate": None},
    "bad_date_then_bad_facility": {"ObservationDate": None, "ProcessFacility": "JAXA"},
}

functions = {
    "transform_scene_spec": (summary.transform_scene_spec, scene_specs, "scs"),
    "transform_product_spec": (summary.transform_product_spec, product_specs, "pds"),
    "transform_image_info": (summary.transform_image_info, image_infos, "img"),
    "transform_label_info": (summary.transform_label_info, label_infos, "lbi"),
}


def open_from_memory(name, sections):
    content = "\n".join(
        f'{prefix.title()}_{key}="{value}"'
        for prefix, section in sections.items()
        for key, value in section.items()
    )
    mapper = fsspec.get_mapper(f"memory://eq3/{name}")
    mapper.clear()
    mapper["summary.txt"] = content.encode()
    return summary.open_summary(mapper, "summary.txt")


class patched:
    """temporarily replace attributes of a module (default: `ceos_alos2.decoders`)"""

    def __init__(self, module=decoders, **replacements):
        self.module = module
        self.replacements = replacements

    def __enter__(self):
        self.saved = {name: getattr(self.module, name) for name in self.replacements}
        for name, value in self.replacements.items():
            setattr(self.module, name, value)

    def __exit__(self, *exc_info):
        for name, value in self.saved.items():
            setattr(self.module, name, value)


def collect():
    results = {}
    for fname, (func, sections, _) in functions.items():
        for name, section in sections.items():
            copied = dict(section)
            results[f"{fname}/{name}"] = run(func, section)
            results[f"{fname}/{name}/again"] = run(func, section)
            results[f"{fname}/{name}/argument"] = describe(
                [section == copied, list(section) == list(copied)]
            )
        for name, value in {"none": None, "list": [("a", "1")], "string": "abc"}.items():
            results[f"{fname}/not_a_section/{name}"] = run(func, value)

        # results of separate calls don't share state
        typical = sections["typical"] if "typical" in sections else next(iter(sections.values()))
        first = func(typical)
        second = func(typical)
        first.attrs["added"] = 1
        results[f"{fname}/independent"] = describe([second, first.attrs is not second.attrs])

    # passed-through mappings are returned as they are
    section = {"Sensor": "SAR"}
    results["transform_label_info/new_attrs"] = describe(
        summary.transform_label_info(section).attrs is not section
    )

    # nothing is frozen at import time: the functions see the state of `decoders` at call time
    with patched(resampling_methods={"XX": "something else"}):
        results["late/resampling_methods/rebound/new"] = run(
            summary.transform_product_spec, {"ResamplingMethod": "XX"}
        )
        results["late/resampling_methods/rebound/old"] = run(
            summary.transform_product_spec, {"ResamplingMethod": "NN"}
        )
    decoders.resampling_methods["ZZ"] = "added in place"
    try:
        results["late/resampling_methods/in_place"] = run(
            summary.transform_product_spec, {"ResamplingMethod": "ZZ"}
        )
    finally:
        del decoders.resampling_methods["ZZ"]
    results["late/resampling_methods/restored"] = run(
        summary.transform_product_spec, {"ResamplingMethod": "ZZ"}
    )
    with patched(processing_facilities={"JAXA": "the agency"}):
        results["late/processing_facilities/rebound"] = run(
            summary.transform_label_info, {"ProcessFacility": "JAXA"}
        )
    with patched(lookup=lambda mapping, code: ("looked up", sorted(mapping), code)):
        results["late/lookup/product_spec"] = run(
            summary.transform_product_spec, {"ResamplingMethod": "NN"}
        )
        results["late/lookup/label_info"] = run(
            summary.transform_label_info, {"ProcessFacility": "SCMO"}
        )
    with patched(decode_product_id=lambda value: {"product": value, "nested": {"a": 1}}):
        results["late/decode_product_id"] = run(
            summary.transform_product_spec, {"ProductID": "anything"}
        )
    with patched(decode_scene_id=lambda value: {"scene_frame": "12", "other": value}):
        results["late/decode_scene_id"] = run(summary.transform_scene_spec, {"SceneID": "anything"})

    with patched(summary, reformat_date=lambda value: ("reformatted", value)):
        results["late/reformat_date/label_info"] = run(
            summary.transform_label_info, {"ObservationDate": "20180726"}
        )
        results["late/reformat_date/image_info"] = run(
            summary.transform_image_info, {"ADateTime": "20180726 13:09"}
        )
    with patched(summary, to_isoformat=lambda value: ("iso", value)):
        results["late/to_isoformat"] = run(
            summary.transform_image_info, {"ADateTime": "20180726 13:09", "B": "1"}
        )
    with patched(summary, apply_to_items=lambda funcs, mapping, **kw: {"funcs": sorted(funcs)}):
        for fname, (func, sections, _) in functions.items():
            results[f"late/apply_to_items/{fname}"] = run(func, sections["empty"])
    results["late/restored"] = describe(
        [func(sections["typical" if "typical" in sections else "empty"])
         for func, sections, _ in functions.values()]
    )

    # embedded in the whole summary
    all_typical = {
        "scs": scene_specs["id_and_shift"],
        "pds": product_specs["typical"],
        "img": image_infos["mixed"],
        "lbi": label_infos["typical"],
    }
    results["transform_summary/typical"] = run(summary.transform_summary, all_typical)
    results["open_summary/typical"] = run(open_from_memory, "typical", all_typical)
    for fname, (_, sections, prefix) in functions.items():
        for name, section in sections.items():
            if not all(isinstance(k, str) and isinstance(v, str) for k, v in section.items()):
                continue
            results[f"open_summary/{fname}/{name}"] = run(
                open_from_memory, f"{fname}-{name}", {prefix: section}
            )

    # helpers
    for value in ["20180726", "2018", "", "201807261", list("20180726"), None]:
        results[f"reformat_date/{value!r}"] = run(summary.reformat_date, value)
    for value in ["20180726 13:09:44.204", "20180726", "a b c", "  a   b  ", "", None]:
        results[f"to_isoformat/{value!r}"] = run(summary.to_isoformat, value)

    return results


EXPECTED = {'transform_scene_spec/empty': {'returned': {'Group': {'path': {'str': "'/'"},
                                                       'url': {'NoneType': 'None'},
                                                       'data': {'dict:dict': []},
                                                       'attrs': {'dict:dict': []}}}},
 'transform_scene_spec/empty/again': {'returned': {'Group': {'path': {'str': "'/'"},
                                                             'url': {'NoneType': 'None'},
                                                             'data': {'dict:dict': []},
                                                             'attrs': {'dict:dict': []}}}},
 'transform_scene_spec/empty/argument': {'list': [{'bool': 'True'}, {'bool': 'True'}]},
 'transform_scene_spec/shift_only': {'returned': {'Group': {'path': {'str': "'/'"},
                                                            'url': {'NoneType': 'None'},
                                                            'data': {'dict:dict': []},
                                                            'attrs': {'dict:dict': [[{'str': "'SceneShift'"},
                                                                                     {'int': '0'}]]}}}},
 'transform_scene_spec/shift_only/again': {'returned': {'Group': {'path': {'str': "'/'"},
                                                                  'url': {'NoneType': 'None'},
                                                                  'data': {'dict:dict': []},
                                                                  'attrs': {'dict:dict': [[{'str': "'SceneShift'"},
                                                                                           {'int': '0'}]]}}}},
 'transform_scene_spec/shift_only/argument': {'list': [{'bool': 'True'}, {'bool': 'True'}]},
 'transform_scene_spec/negative_shift': {'returned': {'Group': {'path': {'str': "'/'"},
                                                                'url': {'NoneType': 'None'},
                                                                'data': {'dict:dict': []},
                                                                'attrs': {'dict:dict': [[{'str': "'SceneShift'"},
                                                                                         {'int': '-2'}]]}}}},
 'transform_scene_spec/negative_shift/again': {'returned': {'Group': {'path': {'str': "'/'"},
                                                                      'url': {'NoneType': 'None'},
                                                                      'data': {'dict:dict': []},
                                                                      'attrs': {'dict:dict': [[{'str': "'SceneShift'"},
                                                                                               {'int': '-2'}]]}}}},
 'transform_scene_spec/negative_shift/argument': {'list': [{'bool': 'True'}, {'bool': 'True'}]},
 'transform_scene_spec/padded_shift': {'returned': {'Group': {'path': {'str': "'/'"},
                                                              'url': {'NoneType': 'None'},
                                                              'data': {'dict:dict': []},
                                                              'attrs': {'dict:dict': [[{'str': "'SceneShift'"},
                                                                                       {'int': '3'}]]}}}},
 'transform_scene_spec/padded_shift/again': {'returned': {'Group': {'path': {'str': "'/'"},
                                                                    'url': {'NoneType': 'None'},
                                                                    'data': {'dict:dict': []},
                                                                    'attrs': {'dict:dict': [[{'str': "'SceneShift'"},
                                                                                             {'int': '3'}]]}}}},
 'transform_scene_spec/padded_shift/argument': {'list': [{'bool': 'True'}, {'bool': 'True'}]},
 'transform_scene_spec/id_only': {'returned': {'Group': {'path': {'str': "'/'"},
                                                         'url': {'NoneType': 'None'},
                                                         'data': {'dict:dict': []},
                                                         'attrs': {'dict:dict': [[{'str': "'mission_name'"},
                                                                                  {'str': "'ALOS2'"}],
                                                                                 [{'str': "'orbit_accumulation'"},
                                                                                  {'int': '22533'}],
                                                                                 [{'str': "'scene_frame'"},
                                                                                  {'int': '3200'}],
                                                                                 [{'str': "'date'"},
                                                                                  {'str': "'2018-07-26'"}]]}}}},
 'transform_scene_spec/id_only/again': {'returned': {'Group': {'path': {'str': "'/'"},
                                                               'url': {'NoneType': 'None'},
                                                               'data': {'dict:dict': []},
                                                               'attrs': {'dict:dict': [[{'str': "'mission_name'"},
                                                                                        {'str': "'ALOS2'"}],
                                                                                       [{'str': "'orbit_accumulation'"},
                                                                                        {'int': '22533'}],
                                                                                       [{'str': "'scene_frame'"},
                                                                                        {'int': '3200'}],
                                                                                       [{'str': "'date'"},
                                                                                        {'str': "'2018-07-26'"}]]}}}},
 'transform_scene_spec/id_only/argument': {'list': [{'bool': 'True'}, {'bool': 'True'}]},
 'transform_scene_spec/id_and_shift': {'returned': {'Group': {'path': {'str': "'/'"},
                                                              'url': {'NoneType': 'None'},
                                                              'data': {'dict:dict': []},
                                                              'attrs': {'dict:dict': [[{'str': "'mission_name'"},
                                                                                       {'str': "'ALOS2'"}],
                                                                                      [{'str': "'orbit_accumulation'"},
                                                                                       {'int': '22533'}],
                                                                                      [{'str': "'scene_frame'"},
                                                                                       {'int': '3200'}],
                                                                                      [{'str': "'date'"},
                                                                                       {'str': "'2018-07-26'"}],
                                                                                      [{'str': "'SceneShift'"},
                                                                                       {'int': '1'}]]}}}},
 'transform_scene_spec/id_and_shift/again': {'returned': {'Group': {'path': {'str': "'/'"},
                                                                    'url': {'NoneType': 'None'},
                                                                    'data': {'dict:dict': []},
                                                                    'attrs': {'dict:dict': [[{'str': "'mission_name'"},
                                                                                             {'str': "'ALOS2'"}],
                                                                                            [{'str': "'orbit_accumulation'"},
                                                                                             {'int': '22533'}],
                                                                                            [{'str': "'scene_frame'"},
                                                                                             {'int': '3200'}],
                                                                                            [{'str': "'date'"},
                                                                                             {'str': "'2018-07-26'"}],
                                                                                            [{'str': "'SceneShift'"},
                                                                                             {'int': '1'}]]}}}},
 'transform_scene_spec/id_and_shift/argument': {'list': [{'bool': 'True'}, {'bool': 'True'}]},
 'transform_scene_spec/shift_and_id': {'returned': {'Group': {'path': {'str': "'/'"},
                                                              'url': {'NoneType': 'None'},
                                                              'data': {'dict:dict': []},
                                                              'attrs': {'dict:dict': [[{'str': "'SceneShift'"},
                                                                                       {'int': '1'}],
                                                                                      [{'str': "'mission_name'"},
                                                                                       {'str': "'ALOS2'"}],
                                                                                      [{'str': "'orbit_accumulation'"},
                                                                                       {'int': '22533'}],
                                                                                      [{'str': "'scene_frame'"},
                                                                                       {'int': '3200'}],
                                                                                      [{'str': "'date'"},
                                                                                       {'str': "'2018-07-26'"}]]}}}},
 'transform_scene_spec/shift_and_id/again': {'returned': {'Group': {'path': {'str': "'/'"},
                                                                    'url': {'NoneType': 'None'},
                                                                    'data': {'dict:dict': []},
                                                                    'attrs': {'dict:dict': [[{'str': "'SceneShift'"},
                                                                                             {'int': '1'}],
                                                                                            [{'str': "'mission_name'"},
                                                                                             {'str': "'ALOS2'"}],
                                                                                            [{'str': "'orbit_accumulation'"},
                                                                                             {'int': '22533'}],
                                                                                            [{'str': "'scene_frame'"},
                                                                                             {'int': '3200'}],
                                                                                            [{'str': "'date'"},
                                                                                             {'str': "'2018-07-26'"}]]}}}},
 'transform_scene_spec/shift_and_id/argument': {'list': [{'bool': 'True'}, {'bool': 'True'}]},
 'transform_scene_spec/leading_zeros': {'returned': {'Group': {'path': {'str': "'/'"},
                                                               'url': {'NoneType': 'None'},
                                                               'data': {'dict:dict': []},
                                                               'attrs': {'dict:dict': [[{'str': "'mission_name'"},
                                                                                        {'str': "'ALOS2'"}],
                                                                                       [{'str': "'orbit_accumulation'"},
                                                                                        {'int': '1'}],
                                                                                       [{'str': "'scene_frame'"},
                                                                                        {'int': '7'}],
                                                                                       [{'str': "'date'"},
                                                                                        {'str': "'2000-01-01'"}]]}}}},
 'transform_scene_spec/leading_zeros/again': {'returned': {'Group': {'path': {'str': "'/'"},
                                                                     'url': {'NoneType': 'None'},
                                                                     'data': {'dict:dict': []},
                                                                     'attrs': {'dict:dict': [[{'str': "'mission_name'"},
                                                                                              {'str': "'ALOS2'"}],
                                                                                             [{'str': "'orbit_accumulation'"},
                                                                                              {'int': '1'}],
                                                                                             [{'str': "'scene_frame'"},
                                                                                              {'int': '7'}],
                                                                                             [{'str': "'date'"},
                                                                                              {'str': "'2000-01-01'"}]]}}}},
 'transform_scene_spec/leading_zeros/argument': {'list': [{'bool': 'True'}, {'bool': 'True'}]},
 'transform_scene_spec/leap_day': {'returned': {'Group': {'path': {'str': "'/'"},
                                                          'url': {'NoneType': 'None'},
                                                          'data': {'dict:dict': []},
                                                          'attrs': {'dict:dict': [[{'str': "'mission_name'"},
                                                                                   {'str': "'ALOS2'"}],
                                                                                  [{'str': "'orbit_accumulation'"},
                                                                                   {'int': '12345'}],
                                                                                  [{'str': "'scene_frame'"},
                                                                                   {'int': '6789'}],
                                                                                  [{'str': "'date'"},
                                                                                   {'str': "'2020-02-29'"}]]}}}},
 'transform_scene_spec/leap_day/again': {'returned': {'Group': {'path': {'str': "'/'"},
                                                                'url': {'NoneType': 'None'},
                                                                'data': {'dict:dict': []},
                                                                'attrs': {'dict:dict': [[{'str': "'mission_name'"},
                                                                                         {'str': "'ALOS2'"}],
                                                                                        [{'str': "'orbit_accumulation'"},
                                                                                         {'int': '12345'}],
                                                                                        [{'str': "'scene_frame'"},
                                                                                         {'int': '6789'}],
                                                                                        [{'str': "'date'"},
                                                                                         {'str': "'2020-02-29'"}]]}}}},
 'transform_scene_spec/leap_day/argument': {'list': [{'bool': 'True'}, {'bool': 'True'}]},
 'transform_scene_spec/last_century': {'returned': {'Group': {'path': {'str': "'/'"},
                                                              'url': {'NoneType': 'None'},
                                                              'data': {'dict:dict': []},
                                                              'attrs': {'dict:dict': [[{'str': "'mission_name'"},
                                                                                       {'str': "'ALOS2'"}],
                                                                                      [{'str': "'orbit_accumulation'"},
                                                                                       {'int': '12345'}],
                                                                                      [{'str': "'scene_frame'"},
                                                                                       {'int': '6789'}],
                                                                                      [{'str': "'date'"},
                                                                                       {'str': "'1999-12-31'"}]]}}}},
 'transform_scene_spec/last_century/again': {'returned': {'Group': {'path': {'str': "'/'"},
                                                                    'url': {'NoneType': 'None'},
                                                                    'data': {'dict:dict': []},
                                                                    'attrs': {'dict:dict': [[{'str': "'mission_name'"},
                                                                                             {'str': "'ALOS2'"}],
                                                                                            [{'str': "'orbit_accumulation'"},
                                                                                             {'int': '12345'}],
                                                                                            [{'str': "'scene_frame'"},
                                                                                             {'int': '6789'}],
                                                                                            [{'str': "'date'"},
                                                                                             {'str': "'1999-12-31'"}]]}}}},
 'transform_scene_spec/last_century/argument': {'list': [{'bool': 'True'}, {'bool': 'True'}]},
 'transform_scene_spec/unknown_keys': {'returned': {'Group': {'path': {'str': "'/'"},
                                                              'url': {'NoneType': 'None'},
                                                              'data': {'dict:dict': []},
                                                              'attrs': {'dict:dict': [[{'str': "'Other'"},
                                                                                       {'str': "'x'"}],
                                                                                      [{'str': "'mission_name'"},
                                                                                       {'str': "'ALOS2'"}],
                                                                                      [{'str': "'orbit_accumulation'"},
                                                                                       {'int': '22533'}],
                                                                                      [{'str': "'scene_frame'"},
                                                                                       {'int': '3200'}],
                                                                                      [{'str': "'date'"},
                                                                                       {'str': "'kept?'"}]]}}}},
 'transform_scene_spec/unknown_keys/again': {'returned': {'Group': {'path': {'str': "'/'"},
                                                                    'url': {'NoneType': 'None'},
                                                                    'data': {'dict:dict': []},
                                                                    'attrs': {'dict:dict': [[{'str': "'Other'"},
                                                                                             {'str': "'x'"}],
                                                                                            [{'str': "'mission_name'"},
                                                                                             {'str': "'ALOS2'"}],
                                                                                            [{'str': "'orbit_accumulation'"},
                                                                                             {'int': '22533'}],
                                                                                            [{'str': "'scene_frame'"},
                                                                                             {'int': '3200'}],
                                                                                            [{'str': "'date'"},
                                                                                             {'str': "'kept?'"}]]}}}},
 'transform_scene_spec/unknown_keys/argument': {'list': [{'bool': 'True'}, {'bool': 'True'}]},
 'transform_scene_spec/key_collision_after': {'returned': {'Group': {'path': {'str': "'/'"},
                                                                     'url': {'NoneType': 'None'},
                                                                     'data': {'dict:dict': []},
                                                                     'attrs': {'dict:dict': [[{'str': "'mission_name'"},
                                                                                              {'str': "'ALOS2'"}],
                                                                                             [{'str': "'orbit_accumulation'"},
                                                                                              {'int': '22533'}],
                                                                                             [{'str': "'scene_frame'"},
                                                                                              {'str': "'later'"}],
                                                                                             [{'str': "'date'"},
                                                                                              {'str': "'2018-07-26'"}]]}}}},
 'transform_scene_spec/key_collision_after/again': {'returned': {'Group': {'path': {'str': "'/'"},
                                                                           'url': {'NoneType': 'None'},
                                                                           'data': {'dict:dict': []},
                                                                           'attrs': {'dict:dict': [[{'str': "'mission_name'"},
                                                                                                    {'str': "'ALOS2'"}],
                                                                                                   [{'str': "'orbit_accumulation'"},
                                                                                                    {'int': '22533'}],
                                                                                                   [{'str': "'scene_frame'"},
                                                                                                    {'str': "'later'"}],
                                                                                                   [{'str': "'date'"},
                                                                                                    {'str': "'2018-07-26'"}]]}}}},
 'transform_scene_spec/key_collision_after/argument': {'list': [{'bool': 'True'},
                                                                {'bool': 'True'}]},
 'transform_scene_spec/key_collision_before': {'returned': {'Group': {'path': {'str': "'/'"},
                                                                      'url': {'NoneType': 'None'},
                                                                      'data': {'dict:dict': []},
                                                                      'attrs': {'dict:dict': [[{'str': "'scene_frame'"},
                                                                                               {'int': '3200'}],
                                                                                              [{'str': "'mission_name'"},
                                                                                               {'str': "'ALOS2'"}],
                                                                                              [{'str': "'orbit_accumulation'"},
                                                                                               {'int': '22533'}],
                                                                                              [{'str': "'date'"},
                                                                                               {'str': "'2018-07-26'"}]]}}}},
 'transform_scene_spec/key_collision_before/again': {'returned': {'Group': {'path': {'str': "'/'"},
                                                                            'url': {'NoneType': 'None'},
                                                                            'data': {'dict:dict': []},
                                                                            'attrs': {'dict:dict': [[{'str': "'scene_frame'"},
                                                                                                     {'int': '3200'}],
                                                                                                    [{'str': "'mission_name'"},
                                                                                                     {'str': "'ALOS2'"}],
                                                                                                    [{'str': "'orbit_accumulation'"},
                                                                                                     {'int': '22533'}],
                                                                                                    [{'str': "'date'"},
                                                                                                     {'str': "'2018-07-26'"}]]}}}},
 'transform_scene_spec/key_collision_before/argument': {'list': [{'bool': 'True'},
                                                                 {'bool': 'True'}]},
 'transform_scene_spec/nested_unknown': {'returned': {'Group': {'path': {'str': "'/'"},
                                                                'url': {'NoneType': 'None'},
                                                                'data': {'dict:dict': []},
                                                                'attrs': {'dict:dict': [[{'str': "'a'"},
                                                                                         {'int': '1'}],
                                                                                        [{'str': "'b'"},
                                                                                         {'dict:dict': [[{'str': "'c'"},
                                                                                                         {'int': '2'}]]}],
                                                                                        [{'str': "'SceneShift'"},
                                                                                         {'int': '5'}]]}}}},
 'transform_scene_spec/nested_unknown/again': {'returned': {'Group': {'path': {'str': "'/'"},
                                                                      'url': {'NoneType': 'None'},
                                                                      'data': {'dict:dict': []},
                                                                      'attrs': {'dict:dict': [[{'str': "'a'"},
                                                                                               {'int': '1'}],
                                                                                              [{'str': "'b'"},
                                                                                               {'dict:dict': [[{'str': "'c'"},
                                                                                                               {'int': '2'}]]}],
                                                                                              [{'str': "'SceneShift'"},
                                                                                               {'int': '5'}]]}}}},
 'transform_scene_spec/nested_unknown/argument': {'list': [{'bool': 'True'}, {'bool': 'True'}]},
 'transform_scene_spec/bad_shift': {'raised': {'type': 'builtins.ValueError',
                                               'args': {'tuple': [{'str': '"invalid literal for '
                                                                          'int() with base 10: '
                                                                          '\'1.0\'"'}]},
                                               'str': 'invalid literal for int() with base 10: '
                                                      "'1.0'",
                                               'cause': None,
                                               'context': None,
                                               'suppress_context': False}},
 'transform_scene_spec/bad_shift/again': {'raised': {'type': 'builtins.ValueError',
                                                     'args': {'tuple': [{'str': '"invalid literal '
                                                                                'for int() with '
                                                                                'base 10: '
                                                                                '\'1.0\'"'}]},
                                                     'str': 'invalid literal for int() with base '
                                                            "10: '1.0'",
                                                     'cause': None,
                                                     'context': None,
                                                     'suppress_context': False}},
 'transform_scene_spec/bad_shift/argument': {'list': [{'bool': 'True'}, {'bool': 'True'}]},
 'transform_scene_spec/empty_shift': {'raised': {'type': 'builtins.ValueError',
                                                 'args': {'tuple': [{'str': '"invalid literal for '
                                                                            'int() with base 10: '
                                                                            '\'\'"'}]},
                                                 'str': 'invalid literal for int() with base 10: '
                                                        "''",
                                                 'cause': None,
                                                 'context': None,
                                                 'suppress_context': False}},
 'transform_scene_spec/empty_shift/again': {'raised': {'type': 'builtins.ValueError',
                                                       'args': {'tuple': [{'str': '"invalid '
                                                                                  'literal for '
                                                                                  'int() with base '
                                                                                  '10: \'\'"'}]},
                                                       'str': 'invalid literal for int() with base '
                                                              "10: ''",
                                                       'cause': None,
                                                       'context': None,
                                                       'suppress_context': False}},
 'transform_scene_spec/empty_shift/argument': {'list': [{'bool': 'True'}, {'bool': 'True'}]},
 'transform_scene_spec/none_shift': {'raised': {'type': 'builtins.TypeError',
                                                'args': {'tuple': [{'str': '"int() argument must '
                                                                           'be a string, a '
                                                                           'bytes-like object or a '
                                                                           'real number, not '
                                                                           '\'NoneType\'"'}]},
                                                'str': 'int() argument must be a string, a '
                                                       'bytes-like object or a real number, not '
                                                       "'NoneType'",
                                                'cause': None,
                                                'context': None,
                                                'suppress_context': False}},
 'transform_scene_spec/none_shift/again': {'raised': {'type': 'builtins.TypeError',
                                                      'args': {'tuple': [{'str': '"int() argument '
                                                                                 'must be a '
                                                                                 'string, a '
                                                                                 'bytes-like '
                                                                                 'object or a real '
                                                                                 'number, not '
                                                                                 '\'NoneType\'"'}]},
                                                      'str': 'int() argument must be a string, a '
                                                             'bytes-like object or a real number, '
                                                             "not 'NoneType'",
                                                      'cause': None,
                                                      'context': None,
                                                      'suppress_context': False}},
 'transform_scene_spec/none_shift/argument': {'list': [{'bool': 'True'}, {'bool': 'True'}]},
 'transform_scene_spec/short_id': {'raised': {'type': 'builtins.ValueError',
                                              'args': {'tuple': [{'str': "'invalid scene id: "
                                                                         "ALOS222533320-180726'"}]},
                                              'str': 'invalid scene id: ALOS222533320-180726',
                                              'cause': None,
                                              'context': None,
                                              'suppress_context': False}},
 'transform_scene_spec/short_id/again': {'raised': {'type': 'builtins.ValueError',
                                                    'args': {'tuple': [{'str': "'invalid scene id: "
                                                                               "ALOS222533320-180726'"}]},
                                                    'str': 'invalid scene id: ALOS222533320-180726',
                                                    'cause': None,
                                                    'context': None,
                                                    'suppress_context': False}},
 'transform_scene_spec/short_id/argument': {'list': [{'bool': 'True'}, {'bool': 'True'}]},
 'transform_scene_spec/trailing_id': {'raised': {'type': 'builtins.ValueError',
                                                 'args': {'tuple': [{'str': "'invalid scene id: "
                                                                            "ALOS2225333200-180726x'"}]},
                                                 'str': 'invalid scene id: ALOS2225333200-180726x',
                                                 'cause': None,
                                                 'context': None,
                                                 'suppress_context': False}},
 'transform_scene_spec/trailing_id/again': {'raised': {'type': 'builtins.ValueError',
                                                       'args': {'tuple': [{'str': "'invalid scene "
                                                                                  'id: '
                                                                                  "ALOS2225333200-180726x'"}]},
                                                       'str': 'invalid scene id: '
                                                              'ALOS2225333200-180726x',
                                                       'cause': None,
                                                       'context': None,
                                                       'suppress_context': False}},
 'transform_scene_spec/trailing_id/argument': {'list': [{'bool': 'True'}, {'bool': 'True'}]},
 'transform_scene_spec/lowercase_id': {'raised': {'type': 'builtins.ValueError',
                                                  'args': {'tuple': [{'str': "'invalid scene id: "
                                                                             "alos2225333200-180726'"}]},
                                                  'str': 'invalid scene id: alos2225333200-180726',
                                                  'cause': None,
                                                  'context': None,
                                                  'suppress_context': False}},
 'transform_scene_spec/lowercase_id/again': {'raised': {'type': 'builtins.ValueError',
                                                        'args': {'tuple': [{'str': "'invalid scene "
                                                                                   'id: '
                                                                                   "alos2225333200-180726'"}]},
                                                        'str': 'invalid scene id: '
                                                               'alos2225333200-180726',
                                                        'cause': None,
                                                        'context': None,
                                                        'suppress_context': False}},
 'transform_scene_spec/lowercase_id/argument': {'list': [{'bool': 'True'}, {'bool': 'True'}]},
 'transform_scene_spec/impossible_date': {'raised': {'type': 'builtins.ValueError',
                                                     'args': {'tuple': [{'str': "'invalid scene "
                                                                                'id: '
                                                                                "ALOS2225333200-180732'"}]},
                                                     'str': 'invalid scene id: '
                                                            'ALOS2225333200-180732',
                                                     'cause': {'type': 'builtins.ValueError',
                                                               'args': {'tuple': [{'str': "'unconverted "
                                                                                          'data '
                                                                                          'remains: '
                                                                                          "2'"}]},
                                                               'str': 'unconverted data remains: 2',
                                                               'cause': None,
                                                               'context': None,
                                                               'suppress_context': False},
                                                     'context': {'type': 'builtins.ValueError',
                                                                 'args': {'tuple': [{'str': "'unconverted "
                                                                                            'data '
                                                                                            'remains: '
                                                                                            "2'"}]},
                                                                 'str': 'unconverted data remains: '
                                                                        '2',
                                                                 'cause': None,
                                                                 'context': None,
                                                                 'suppress_context': False},
                                                     'suppress_context': True}},
 'transform_scene_spec/impossible_date/again': {'raised': {'type': 'builtins.ValueError',
                                                           'args': {'tuple': [{'str': "'invalid "
                                                                                      'scene id: '
                                                                                      "ALOS2225333200-180732'"}]},
                                                           'str': 'invalid scene id: '
                                                                  'ALOS2225333200-180732',
                                                           'cause': {'type': 'builtins.ValueError',
                                                                     'args': {'tuple': [{'str': "'unconverted "
                                                                                                'data '
                                                                                                'remains: '
                                                                                                "2'"}]},
                                                                     'str': 'unconverted data '
                                                                            'remains: 2',
                                                                     'cause': None,
                                                                     'context': None,
                                                                     'suppress_context': False},
                                                           'context': {'type': 'builtins.ValueError',
                                                                       'args': {'tuple': [{'str': "'unconverted "
                                                                                                  'data '
                                                                                                  'remains: '
                                                                                                  "2'"}]},
                                                                       'str': 'unconverted data '
                                                                              'remains: 2',
                                                                       'cause': None,
                                                                       'context': None,
                                                                       'suppress_context': False},
                                                           'suppress_context': True}},
 'transform_scene_spec/impossible_date/argument': {'list': [{'bool': 'True'}, {'bool': 'True'}]},
 'transform_scene_spec/impossible_month': {'raised': {'type': 'builtins.ValueError',
                                                      'args': {'tuple': [{'str': "'invalid scene "
                                                                                 'id: '
                                                                                 "ALOS2225333200-181301'"}]},
                                                      'str': 'invalid scene id: '
                                                             'ALOS2225333200-181301',
                                                      'cause': {'type': 'builtins.ValueError',
                                                                'args': {'tuple': [{'str': "'unconverted "
                                                                                           'data '
                                                                                           'remains: '
                                                                                           "1'"}]},
                                                                'str': 'unconverted data remains: '
                                                                       '1',
                                                                'cause': None,
                                                                'context': None,
                                                                'suppress_context': False},
                                                      'context': {'type': 'builtins.ValueError',
                                                                  'args': {'tuple': [{'str': "'unconverted "
                                                                                             'data '
                                                                                             'remains: '
                                                                                             "1'"}]},
                                                                  'str': 'unconverted data '
                                                                         'remains: 1',
                                                                  'cause': None,
                                                                  'context': None,
                                                                  'suppress_context': False},
                                                      'suppress_context': True}},
 'transform_scene_spec/impossible_month/again': {'raised': {'type': 'builtins.ValueError',
                                                            'args': {'tuple': [{'str': "'invalid "
                                                                                       'scene id: '
                                                                                       "ALOS2225333200-181301'"}]},
                                                            'str': 'invalid scene id: '
                                                                   'ALOS2225333200-181301',
                                                            'cause': {'type': 'builtins.ValueError',
                                                                      'args': {'tuple': [{'str': "'unconverted "
                                                                                                 'data '
                                                                                                 'remains: '
                                                                                                 "1'"}]},
                                                                      'str': 'unconverted data '
                                                                             'remains: 1',
                                                                      'cause': None,
                                                                      'context': None,
                                                                      'suppress_context': False},
                                                            'context': {'type': 'builtins.ValueError',
                                                                        'args': {'tuple': [{'str': "'unconverted "
                                                                                                   'data '
                                                                                                   'remains: '
                                                                                                   "1'"}]},
                                                                        'str': 'unconverted data '
                                                                               'remains: 1',
                                                                        'cause': None,
                                                                        'context': None,
                                                                        'suppress_context': False},
                                                            'suppress_context': True}},
 'transform_scene_spec/impossible_month/argument': {'list': [{'bool': 'True'}, {'bool': 'True'}]},
 'transform_scene_spec/no_leap_day': {'raised': {'type': 'builtins.ValueError',
                                                 'args': {'tuple': [{'str': "'invalid scene id: "
                                                                            "ALOS2123456789-190229'"}]},
                                                 'str': 'invalid scene id: ALOS2123456789-190229',
                                                 'cause': {'type': 'builtins.ValueError',
                                                           'args': {'tuple': [{'str': "'day is out "
                                                                                      'of range '
                                                                                      'for '
                                                                                      "month'"}]},
                                                           'str': 'day is out of range for month',
                                                           'cause': None,
                                                           'context': None,
                                                           'suppress_context': False},
                                                 'context': {'type': 'builtins.ValueError',
                                                             'args': {'tuple': [{'str': "'day is "
                                                                                        'out of '
                                                                                        'range for '
                                                                                        "month'"}]},
                                                             'str': 'day is out of range for month',
                                                             'cause': None,
                                                             'context': None,
                                                             'suppress_context': False},
                                                 'suppress_context': True}},
 'transform_scene_spec/no_leap_day/again': {'raised': {'type': 'builtins.ValueError',
                                                       'args': {'tuple': [{'str': "'invalid scene "
                                                                                  'id: '
                                                                                  "ALOS2123456789-190229'"}]},
                                                       'str': 'invalid scene id: '
                                                              'ALOS2123456789-190229',
                                                       'cause': {'type': 'builtins.ValueError',
                                                                 'args': {'tuple': [{'str': "'day "
                                                                                            'is '
                                                                                            'out '
                                                                                            'of '
                                                                                            'range '
                                                                                            'for '
                                                                                            "month'"}]},
                                                                 'str': 'day is out of range for '
                                                                        'month',
                                                                 'cause': None,
                                                                 'context': None,
                                                                 'suppress_context': False},
                                                       'context': {'type': 'builtins.ValueError',
                                                                   'args': {'tuple': [{'str': "'day "
                                                                                              'is '
                                                                                              'out '
                                                                                              'of '
                                                                                              'range '
                                                                                              'for '
                                                                                              "month'"}]},
                                                                   'str': 'day is out of range for '
                                                                          'month',
                                                                   'cause': None,
                                                                   'context': None,
                                                                   'suppress_context': False},
                                                       'suppress_context': True}},
 'transform_scene_spec/no_leap_day/argument': {'list': [{'bool': 'True'}, {'bool': 'True'}]},
 'transform_scene_spec/none_id': {'raised': {'type': 'builtins.TypeError',
                                             'args': {'tuple': [{'str': '"expected string or '
                                                                        'bytes-like object, got '
                                                                        '\'NoneType\'"'}]},
                                             'str': 'expected string or bytes-like object, got '
                                                    "'NoneType'",
                                             'cause': None,
                                             'context': None,
                                             'suppress_context': False}},
 'transform_scene_spec/none_id/again': {'raised': {'type': 'builtins.TypeError',
                                                   'args': {'tuple': [{'str': '"expected string or '
                                                                              'bytes-like object, '
                                                                              'got '
                                                                              '\'NoneType\'"'}]},
                                                   'str': 'expected string or bytes-like object, '
                                                          "got 'NoneType'",
                                                   'cause': None,
                                                   'context': None,
                                                   'suppress_context': False}},
 'transform_scene_spec/none_id/argument': {'list': [{'bool': 'True'}, {'bool': 'True'}]},
 'transform_scene_spec/bytes_id': {'raised': {'type': 'builtins.TypeError',
                                              'args': {'tuple': [{'str': "'cannot use a string "
                                                                         'pattern on a bytes-like '
                                                                         "object'"}]},
                                              'str': 'cannot use a string pattern on a bytes-like '
                                                     'object',
                                              'cause': None,
                                              'context': None,
                                              'suppress_context': False}},
 'transform_scene_spec/bytes_id/again': {'raised': {'type': 'builtins.TypeError',
                                                    'args': {'tuple': [{'str': "'cannot use a "
                                                                               'string pattern on '
                                                                               'a bytes-like '
                                                                               "object'"}]},
                                                    'str': 'cannot use a string pattern on a '
                                                           'bytes-like object',
                                                    'cause': None,
                                                    'context': None,
                                                    'suppress_context': False}},
 'transform_scene_spec/bytes_id/argument': {'list': [{'bool': 'True'}, {'bool': 'True'}]},
 'transform_scene_spec/bad_id_then_bad_shift': {'raised': {'type': 'builtins.ValueError',
                                                           'args': {'tuple': [{'str': "'invalid "
                                                                                      'scene id: '
                                                                                      "x'"}]},
                                                           'str': 'invalid scene id: x',
                                                           'cause': None,
                                                           'context': None,
                                                           'suppress_context': False}},
 'transform_scene_spec/bad_id_then_bad_shift/again': {'raised': {'type': 'builtins.ValueError',
                                                                 'args': {'tuple': [{'str': "'invalid "
                                                                                            'scene '
                                                                                            'id: '
                                                                                            "x'"}]},
                                                                 'str': 'invalid scene id: x',
                                                                 'cause': None,
                                                                 'context': None,
                                                                 'suppress_context': False}},
 'transform_scene_spec/bad_id_then_bad_shift/argument': {'list': [{'bool': 'True'},
                                                                  {'bool': 'True'}]},
 'transform_scene_spec/bad_shift_then_bad_id': {'raised': {'type': 'builtins.ValueError',
                                                           'args': {'tuple': [{'str': '"invalid '
                                                                                      'literal for '
                                                                                      'int() with '
                                                                                      'base 10: '
                                                                                      '\'y\'"'}]},
                                                           'str': 'invalid literal for int() with '
                                                                  "base 10: 'y'",
                                                           'cause': None,
                                                           'context': None,
                                                           'suppress_context': False}},
 'transform_scene_spec/bad_shift_then_bad_id/again': {'raised': {'type': 'builtins.ValueError',
                                                                 'args': {'tuple': [{'str': '"invalid '
                                                                                            'literal '
                                                                                            'for '
                                                                                            'int() '
                                                                                            'with '
                                                                                            'base '
                                                                                            '10: '
                                                                                            '\'y\'"'}]},
                                                                 'str': 'invalid literal for int() '
                                                                        "with base 10: 'y'",
                                                                 'cause': None,
                                                                 'context': None,
                                                                 'suppress_context': False}},
 'transform_scene_spec/bad_shift_then_bad_id/argument': {'list': [{'bool': 'True'},
                                                                  {'bool': 'True'}]},
 'transform_scene_spec/not_a_section/none': {'raised': {'type': 'builtins.AttributeError',
                                                        'args': {'tuple': [{'str': '"\'NoneType\' '
                                                                                   'object has no '
                                                                                   'attribute '
                                                                                   '\'items\'"'}]},
                                                        'str': "'NoneType' object has no attribute "
                                                               "'items'",
                                                        'cause': None,
                                                        'context': None,
                                                        'suppress_context': False}},
 'transform_scene_spec/not_a_section/list': {'raised': {'type': 'builtins.AttributeError',
                                                        'args': {'tuple': [{'str': '"\'list\' '
                                                                                   'object has no '
                                                                                   'attribute '
                                                                                   '\'items\'"'}]},
                                                        'str': "'list' object has no attribute "
                                                               "'items'",
                                                        'cause': None,
                                                        'context': None,
                                                        'suppress_context': False}},
 'transform_scene_spec/not_a_section/string': {'raised': {'type': 'builtins.AttributeError',
                                                          'args': {'tuple': [{'str': '"\'str\' '
                                                                                     'object has '
                                                                                     'no attribute '
                                                                                     '\'items\'"'}]},
                                                          'str': "'str' object has no attribute "
                                                                 "'items'",
                                                          'cause': None,
                                                          'context': None,
                                                          'suppress_context': False}},
 'transform_scene_spec/independent': {'list': [{'Group': {'path': {'str': "'/'"},
                                                          'url': {'NoneType': 'None'},
                                                          'data': {'dict:dict': []},
                                                          'attrs': {'dict:dict': []}}},
                                               {'bool': 'True'}]},
 'transform_product_spec/empty': {'returned': {'Group': {'path': {'str': "'/'"},
                                                         'url': {'NoneType': 'None'},
                                                         'data': {'dict:dict': []},
                                                         'attrs': {'dict:dict': []}}}},
 'transform_product_spec/empty/again': {'returned': {'Group': {'path': {'str': "'/'"},
                                                               'url': {'NoneType': 'None'},
                                                               'data': {'dict:dict': []},
                                                               'attrs': {'dict:dict': []}}}},
 'transform_product_spec/empty/argument': {'list': [{'bool': 'True'}, {'bool': 'True'}]},
 'transform_product_spec/id_only': {'returned': {'Group': {'path': {'str': "'/'"},
                                                           'url': {'NoneType': 'None'},
                                                           'data': {'dict:dict': []},
                                                           'attrs': {'dict:dict': [[{'str': "'observation_mode'"},
                                                                                    {'str': "'ScanSAR "
                                                                                            'nominal '
                                                                                            '28MHz '
                                                                                            'mode '
                                                                                            'dual '
                                                                                            "polarization'"}],
                                                                                   [{'str': "'observation_direction'"},
                                                                                    {'str': "'right "
                                                                                            "looking'"}],
                                                                                   [{'str': "'processing_level'"},
                                                                                    {'str': "'level "
                                                                                            "1.1'"}],
                                                                                   [{'str': "'processing_option'"},
                                                                                    {'str': "'not "
                                                                                            "specified'"}],
                                                                                   [{'str': "'map_projection'"},
                                                                                    {'str': "'not "
                                                                                            "specified'"}],
                                                                                   [{'str': "'orbit_direction'"},
                                                                                    {'str': "'descending'"}]]}}}},
 'transform_product_spec/id_only/again': {'returned': {'Group': {'path': {'str': "'/'"},
                                                                 'url': {'NoneType': 'None'},
                                                                 'data': {'dict:dict': []},
                                                                 'attrs': {'dict:dict': [[{'str': "'observation_mode'"},
                                                                                          {'str': "'ScanSAR "
                                                                                                  'nominal '
                                                                                                  '28MHz '
                                                                                                  'mode '
                                                                                                  'dual '
                                                                                                  "polarization'"}],
                                                                                         [{'str': "'observation_direction'"},
                                                                                          {'str': "'right "
                                                                                                  "looking'"}],
                                                                                         [{'str': "'processing_level'"},
                                                                                          {'str': "'level "
                                                                                                  "1.1'"}],
                                                                                         [{'str': "'processing_option'"},
                                                                                          {'str': "'not "
                                                                                                  "specified'"}],
                                                                                         [{'str': "'map_projection'"},
                                                                                          {'str': "'not "
                                                                                                  "specified'"}],
                                                                                         [{'str': "'orbit_direction'"},
                                                                                          {'str': "'descending'"}]]}}}},
 'transform_product_spec/id_only/argument': {'list': [{'bool': 'True'}, {'bool': 'True'}]},
 'transform_product_spec/id_variants_1': {'returned': {'Group': {'path': {'str': "'/'"},
                                                                 'url': {'NoneType': 'None'},
                                                                 'data': {'dict:dict': []},
                                                                 'attrs': {'dict:dict': [[{'str': "'observation_mode'"},
                                                                                          {'str': "'spotlight "
                                                                                                  "mode'"}],
                                                                                         [{'str': "'observation_direction'"},
                                                                                          {'str': "'left "
                                                                                                  "looking'"}],
                                                                                         [{'str': "'processing_level'"},
                                                                                          {'str': "'level "
                                                                                                  "1.0'"}],
                                                                                         [{'str': "'processing_option'"},
                                                                                          {'str': "'geo-code'"}],
                                                                                         [{'str': "'map_projection'"},
                                                                                          {'str': "'UTM'"}],
                                                                                         [{'str': "'orbit_direction'"},
                                                                                          {'str': "'ascending'"}]]}}}},
 'transform_product_spec/id_variants_1/again': {'returned': {'Group': {'path': {'str': "'/'"},
                                                                       'url': {'NoneType': 'None'},
                                                                       'data': {'dict:dict': []},
                                                                       'attrs': {'dict:dict': [[{'str': "'observation_mode'"},
                                                                                                {'str': "'spotlight "
                                                                                                        "mode'"}],
                                                                                               [{'str': "'observation_direction'"},
                                                                                                {'str': "'left "
                                                                                                        "looking'"}],
                                                                                               [{'str': "'processing_level'"},
                                                                                                {'str': "'level "
                                                                                                        "1.0'"}],
                                                                                               [{'str': "'processing_option'"},
                                                                                                {'str': "'geo-code'"}],
                                                                                               [{'str': "'map_projection'"},
                                                                                                {'str': "'UTM'"}],
                                                                                               [{'str': "'orbit_direction'"},
                                                                                                {'str': "'ascending'"}]]}}}},
 'transform_product_spec/id_variants_1/argument': {'list': [{'bool': 'True'}, {'bool': 'True'}]},
 'transform_product_spec/id_variants_2': {'returned': {'Group': {'path': {'str': "'/'"},
                                                                 'url': {'NoneType': 'None'},
                                                                 'data': {'dict:dict': []},
                                                                 'attrs': {'dict:dict': [[{'str': "'observation_mode'"},
                                                                                          {'str': "'fine "
                                                                                                  'mode '
                                                                                                  'full '
                                                                                                  '(quad.) '
                                                                                                  "polarimetry'"}],
                                                                                         [{'str': "'observation_direction'"},
                                                                                          {'str': "'right "
                                                                                                  "looking'"}],
                                                                                         [{'str': "'processing_level'"},
                                                                                          {'str': "'level "
                                                                                                  "1.5'"}],
                                                                                         [{'str': "'processing_option'"},
                                                                                          {'str': "'geo-reference'"}],
                                                                                         [{'str': "'map_projection'"},
                                                                                          {'str': "'PS'"}],
                                                                                         [{'str': "'orbit_direction'"},
                                                                                          {'str': "'descending'"}]]}}}},
 'transform_product_spec/id_variants_2/again': {'returned': {'Group': {'path': {'str': "'/'"},
                                                                       'url': {'NoneType': 'None'},
                                                                       'data': {'dict:dict': []},
                                                                       'attrs': {'dict:dict': [[{'str': "'observation_mode'"},
                                                                                                {'str': "'fine "
                                                                                                        'mode '
                                                                                                        'full '
                                                                                                        '(quad.) '
                                                                                                        "polarimetry'"}],
                                                                                               [{'str': "'observation_direction'"},
                                                                                                {'str': "'right "
                                                                                                        "looking'"}],
                                                                                               [{'str': "'processing_level'"},
                                                                                                {'str': "'level "
                                                                                                        "1.5'"}],
                                                                                               [{'str': "'processing_option'"},
                                                                                                {'str': "'geo-reference'"}],
                                                                                               [{'str': "'map_projection'"},
                                                                                                {'str': "'PS'"}],
                                                                                               [{'str': "'orbit_direction'"},
                                                                                                {'str': "'descending'"}]]}}}},
 'transform_product_spec/id_variants_2/argument': {'list': [{'bool': 'True'}, {'bool': 'True'}]},
 'transform_product_spec/id_variants_3': {'returned': {'Group': {'path': {'str': "'/'"},
                                                                 'url': {'NoneType': 'None'},
                                                                 'data': {'dict:dict': []},
                                                                 'attrs': {'dict:dict': [[{'str': "'observation_mode'"},
                                                                                          {'str': "'ScanSAR "
                                                                                                  'wide '
                                                                                                  'mode '
                                                                                                  'dual '
                                                                                                  "polarization'"}],
                                                                                         [{'str': "'observation_direction'"},
                                                                                          {'str': "'left "
                                                                                                  "looking'"}],
                                                                                         [{'str': "'processing_level'"},
                                                                                          {'str': "'level "
                                                                                                  "3.1'"}],
                                                                                         [{'str': "'processing_option'"},
                                                                                          {'str': "'not "
                                                                                                  "specified'"}],
                                                                                         [{'str': "'map_projection'"},
                                                                                          {'str': "'MER'"}],
                                                                                         [{'str': "'orbit_direction'"},
                                                                                          {'str': "'ascending'"}]]}}}},
 'transform_product_spec/id_variants_3/again': {'returned': {'Group': {'path': {'str': "'/'"},
                                                                       'url': {'NoneType': 'None'},
                                                                       'data': {'dict:dict': []},
                                                                       'attrs': {'dict:dict': [[{'str': "'observation_mode'"},
                                                                                                {'str': "'ScanSAR "
                                                                                                        'wide '
                                                                                                        'mode '
                                                                                                        'dual '
                                                                                                        "polarization'"}],
                                                                                               [{'str': "'observation_direction'"},
                                                                                                {'str': "'left "
                                                                                                        "looking'"}],
                                                                                               [{'str': "'processing_level'"},
                                                                                                {'str': "'level "
                                                                                                        "3.1'"}],
                                                                                               [{'str': "'processing_option'"},
                                                                                                {'str': "'not "
                                                                                                        "specified'"}],
                                                                                               [{'str': "'map_projection'"},
                                                                                                {'str': "'MER'"}],
                                                                                               [{'str': "'orbit_direction'"},
                                                                                                {'str': "'ascending'"}]]}}}},
 'transform_product_spec/id_variants_3/argument': {'list': [{'bool': 'True'}, {'bool': 'True'}]},
 'transform_product_spec/id_variants_4': {'returned': {'Group': {'path': {'str': "'/'"},
                                                                 'url': {'NoneType': 'None'},
                                                                 'data': {'dict:dict': []},
                                                                 'attrs': {'dict:dict': [[{'str': "'observation_mode'"},
                                                                                          {'str': "'high-sensitive "
                                                                                                  'mode '
                                                                                                  'full '
                                                                                                  '(quad.) '
                                                                                                  "polarimetry'"}],
                                                                                         [{'str': "'observation_direction'"},
                                                                                          {'str': "'right "
                                                                                                  "looking'"}],
                                                                                         [{'str': "'processing_level'"},
                                                                                          {'str': "'level "
                                                                                                  "1.1'"}],
                                                                                         [{'str': "'processing_option'"},
                                                                                          {'str': "'not "
                                                                                                  "specified'"}],
                                                                                         [{'str': "'map_projection'"},
                                                                                          {'str': "'LCC'"}],
                                                                                         [{'str': "'orbit_direction'"},
                                                                                          {'str': "'descending'"}]]}}}},
 'transform_product_spec/id_variants_4/again': {'returned': {'Group': {'path': {'str': "'/'"},
                                                                       'url': {'NoneType': 'None'},
                                                                       'data': {'dict:dict': []},
                                                                       'attrs': {'dict:dict': [[{'str': "'observation_mode'"},
                                                                                                {'str': "'high-sensitive "
                                                                                                        'mode '
                                                                                                        'full '
                                                                                                        '(quad.) '
                                                                                                        "polarimetry'"}],
                                                                                               [{'str': "'observation_direction'"},
                                                                                                {'str': "'right "
                                                                                                        "looking'"}],
                                                                                               [{'str': "'processing_level'"},
                                                                                                {'str': "'level "
                                                                                                        "1.1'"}],
                                                                                               [{'str': "'processing_option'"},
                                                                                                {'str': "'not "
                                                                                                        "specified'"}],
                                                                                               [{'str': "'map_projection'"},
                                                                                                {'str': "'LCC'"}],
                                                                                               [{'str': "'orbit_direction'"},
                                                                                                {'str': "'descending'"}]]}}}},
 'transform_product_spec/id_variants_4/argument': {'list': [{'bool': 'True'}, {'bool': 'True'}]},
 'transform_product_spec/resampling_nn': {'returned': {'Group': {'path': {'str': "'/'"},
                                                                 'url': {'NoneType': 'None'},
                                                                 'data': {'dict:dict': []},
                                                                 'attrs': {'dict:dict': [[{'str': "'ResamplingMethod'"},
                                                                                          {'str': "'nearest-neighbor'"}]]}}}},
 'transform_product_spec/resampling_nn/again': {'returned': {'Group': {'path': {'str': "'/'"},
                                                                       'url': {'NoneType': 'None'},
                                                                       'data': {'dict:dict': []},
                                                                       'attrs': {'dict:dict': [[{'str': "'ResamplingMethod'"},
                                                                                                {'str': "'nearest-neighbor'"}]]}}}},
 'transform_product_spec/resampling_nn/argument': {'list': [{'bool': 'True'}, {'bool': 'True'}]},
 'transform_product_spec/resampling_bl': {'returned': {'Group': {'path': {'str': "'/'"},
                                                                 'url': {'NoneType': 'None'},
                                                                 'data': {'dict:dict': []},
                                                                 'attrs': {'dict:dict': [[{'str': "'ResamplingMethod'"},
                                                                                          {'str': "'bilinear'"}]]}}}},
 'transform_product_spec/resampling_bl/again': {'returned': {'Group': {'path': {'str': "'/'"},
                                                                       'url': {'NoneType': 'None'},
                                                                       'data': {'dict:dict': []},
                                                                       'attrs': {'dict:dict': [[{'str': "'ResamplingMethod'"},
                                                                                                {'str': "'bilinear'"}]]}}}},
 'transform_product_spec/resampling_bl/argument': {'list': [{'bool': 'True'}, {'bool': 'True'}]},
 'transform_product_spec/resampling_cc': {'returned': {'Group': {'path': {'str': "'/'"},
                                                                 'url': {'NoneType': 'None'},
                                                                 'data': {'dict:dict': []},
                                                                 'attrs': {'dict:dict': [[{'str': "'ResamplingMethod'"},
                                                                                          {'str': "'cubic "
                                                                                                  "convolution'"}]]}}}},
 'transform_product_spec/resampling_cc/again': {'returned': {'Group': {'path': {'str': "'/'"},
                                                                       'url': {'NoneType': 'None'},
                                                                       'data': {'dict:dict': []},
                                                                       'attrs': {'dict:dict': [[{'str': "'ResamplingMethod'"},
                                                                                                {'str': "'cubic "
                                                                                                        "convolution'"}]]}}}},
 'transform_product_spec/resampling_cc/argument': {'list': [{'bool': 'True'}, {'bool': 'True'}]},
 'transform_product_spec/zone': {'returned': {'Group': {'path': {'str': "'/'"},
                                                        'url': {'NoneType': 'None'},
                                                        'data': {'dict:dict': []},
                                                        'attrs': {'dict:dict': [[{'str': "'UTM_ZoneNo'"},
                                                                                 {'int': '54'}]]}}}},
 'transform_product_spec/zone/again': {'returned': {'Group': {'path': {'str': "'/'"},
                                                              'url': {'NoneType': 'None'},
                                                              'data': {'dict:dict': []},
                                                              'attrs': {'dict:dict': [[{'str': "'UTM_ZoneNo'"},
                                                                                       {'int': '54'}]]}}}},
 'transform_product_spec/zone/argument': {'list': [{'bool': 'True'}, {'bool': 'True'}]},
 'transform_product_spec/passthroughs': {'returned': {'Group': {'path': {'str': "'/'"},
                                                                'url': {'NoneType': 'None'},
                                                                'data': {'dict:dict': []},
                                                                'attrs': {'dict:dict': [[{'str': "'MapDirection'"},
                                                                                         {'str': "'MapNorth'"}],
                                                                                        [{'str': "'OrbitDataPrecision'"},
                                                                                         {'str': "'Precision'"}],
                                                                                        [{'str': "'AttitudeDataPrecision'"},
                                                                                         {'str': "'Onboard'"}]]}}}},
 'transform_product_spec/passthroughs/again': {'returned': {'Group': {'path': {'str': "'/'"},
                                                                      'url': {'NoneType': 'None'},
                                                                      'data': {'dict:dict': []},
                                                                      'attrs': {'dict:dict': [[{'str': "'MapDirection'"},
                                                                                               {'str': "'MapNorth'"}],
                                                                                              [{'str': "'OrbitDataPrecision'"},
                                                                                               {'str': "'Precision'"}],
                                                                                              [{'str': "'AttitudeDataPrecision'"},
                                                                                               {'str': "'Onboard'"}]]}}}},
 'transform_product_spec/passthroughs/argument': {'list': [{'bool': 'True'}, {'bool': 'True'}]},
 'transform_product_spec/passthrough_non_strings': {'returned': {'Group': {'path': {'str': "'/'"},
                                                                           'url': {'NoneType': 'None'},
                                                                           'data': {'dict:dict': []},
                                                                           'attrs': {'dict:dict': [[{'str': "'MapDirection'"},
                                                                                                    {'NoneType': 'None'}],
                                                                                                   [{'str': "'OrbitDataPrecision'"},
                                                                                                    {'int': '3'}]]}}}},
 'transform_product_spec/passthrough_non_strings/again': {'returned': {'Group': {'path': {'str': "'/'"},
                                                                                 'url': {'NoneType': 'None'},
                                                                                 'data': {'dict:dict': []},
                                                                                 'attrs': {'dict:dict': [[{'str': "'MapDirection'"},
                                                                                                          {'NoneType': 'None'}],
                                                                                                         [{'str': "'OrbitDataPrecision'"},
                                                                                                          {'int': '3'}]]}}}},
 'transform_product_spec/passthrough_non_strings/argument': {'list': [{'bool': 'True'},
                                                                      {'bool': 'True'}]},
 'transform_product_spec/defaults_to_float': {'returned': {'Group': {'path': {'str': "'/'"},
                                                                     'url': {'NoneType': 'None'},
                                                                     'data': {'dict:dict': []},
                                                                     'attrs': {'dict:dict': [[{'str': "'PixelSpacing'"},
                                                                                              {'float': '2.5'}],
                                                                                             [{'str': "'PSLatitude'"},
                                                                                              {'float': '-1000.0'}],
                                                                                             [{'str': "'Inf'"},
                                                                                              {'float': 'inf'}],
                                                                                             [{'str': "'Pad'"},
                                                                                              {'float': '1.0'}]]}}}},
 'transform_product_spec/defaults_to_float/again': {'returned': {'Group': {'path': {'str': "'/'"},
                                                                           'url': {'NoneType': 'None'},
                                                                           'data': {'dict:dict': []},
                                                                           'attrs': {'dict:dict': [[{'str': "'PixelSpacing'"},
                                                                                                    {'float': '2.5'}],
                                                                                                   [{'str': "'PSLatitude'"},
                                                                                                    {'float': '-1000.0'}],
                                                                                                   [{'str': "'Inf'"},
                                                                                                    {'float': 'inf'}],
                                                                                                   [{'str': "'Pad'"},
                                                                                                    {'float': '1.0'}]]}}}},
 'transform_product_spec/defaults_to_float/argument': {'list': [{'bool': 'True'},
                                                                {'bool': 'True'}]},
 'transform_product_spec/nan': {'returned': {'Group': {'path': {'str': "'/'"},
                                                       'url': {'NoneType': 'None'},
                                                       'data': {'dict:dict': []},
                                                       'attrs': {'dict:dict': [[{'str': "'Nan'"},
                                                                                {'float': 'nan'}]]}}}},
 'transform_product_spec/nan/again': {'returned': {'Group': {'path': {'str': "'/'"},
                                                             'url': {'NoneType': 'None'},
                                                             'data': {'dict:dict': []},
                                                             'attrs': {'dict:dict': [[{'str': "'Nan'"},
                                                                                      {'float': 'nan'}]]}}}},
 'transform_product_spec/nan/argument': {'list': [{'bool': 'True'}, {'bool': 'True'}]},
 'transform_product_spec/typical': {'returned': {'Group': {'path': {'str': "'/'"},
                                                           'url': {'NoneType': 'None'},
                                                           'data': {'dict:dict': []},
                                                           'attrs': {'dict:dict': [[{'str': "'observation_mode'"},
                                                                                    {'str': "'ScanSAR "
                                                                                            'nominal '
                                                                                            '28MHz '
                                                                                            'mode '
                                                                                            'dual '
                                                                                            "polarization'"}],
                                                                                   [{'str': "'observation_direction'"},
                                                                                    {'str': "'right "
                                                                                            "looking'"}],
                                                                                   [{'str': "'processing_level'"},
                                                                                    {'str': "'level "
                                                                                            "1.1'"}],
                                                                                   [{'str': "'processing_option'"},
                                                                                    {'str': "'not "
                                                                                            "specified'"}],
                                                                                   [{'str': "'map_projection'"},
                                                                                    {'str': "'not "
                                                                                            "specified'"}],
                                                                                   [{'str': "'orbit_direction'"},
                                                                                    {'str': "'descending'"}],
                                                                                   [{'str': "'ResamplingMethod'"},
                                                                                    {'str': "'nearest-neighbor'"}],
                                                                                   [{'str': "'UTM_ZoneNo'"},
                                                                                    {'int': '0'}],
                                                                                   [{'str': "'PSLatitude'"},
                                                                                    {'float': '0.0'}],
                                                                                   [{'str': "'MapDirection'"},
                                                                                    {'str': "'MapNorth'"}],
                                                                                   [{'str': "'OrbitDataPrecision'"},
                                                                                    {'str': "'Precision'"}],
                                                                                   [{'str': "'AttitudeDataPrecision'"},
                                                                                    {'str': "'Onboard'"}]]}}}},
 'transform_product_spec/typical/again': {'returned': {'Group': {'path': {'str': "'/'"},
                                                                 'url': {'NoneType': 'None'},
                                                                 'data': {'dict:dict': []},
                                                                 'attrs': {'dict:dict': [[{'str': "'observation_mode'"},
                                                                                          {'str': "'ScanSAR "
                                                                                                  'nominal '
                                                                                                  '28MHz '
                                                                                                  'mode '
                                                                                                  'dual '
                                                                                                  "polarization'"}],
                                                                                         [{'str': "'observation_direction'"},
                                                                                          {'str': "'right "
                                                                                                  "looking'"}],
                                                                                         [{'str': "'processing_level'"},
                                                                                          {'str': "'level "
                                                                                                  "1.1'"}],
                                                                                         [{'str': "'processing_option'"},
                                                                                          {'str': "'not "
                                                                                                  "specified'"}],
                                                                                         [{'str': "'map_projection'"},
                                                                                          {'str': "'not "
                                                                                                  "specified'"}],
                                                                                         [{'str': "'orbit_direction'"},
                                                                                          {'str': "'descending'"}],
                                                                                         [{'str': "'ResamplingMethod'"},
                                                                                          {'str': "'nearest-neighbor'"}],
                                                                                         [{'str': "'UTM_ZoneNo'"},
                                                                                          {'int': '0'}],
                                                                                         [{'str': "'PSLatitude'"},
                                                                                          {'float': '0.0'}],
                                                                                         [{'str': "'MapDirection'"},
                                                                                          {'str': "'MapNorth'"}],
                                                                                         [{'str': "'OrbitDataPrecision'"},
                                                                                          {'str': "'Precision'"}],
                                                                                         [{'str': "'AttitudeDataPrecision'"},
                                                                                          {'str': "'Onboard'"}]]}}}},
 'transform_product_spec/typical/argument': {'list': [{'bool': 'True'}, {'bool': 'True'}]},
 'transform_product_spec/typical_reversed': {'returned': {'Group': {'path': {'str': "'/'"},
                                                                    'url': {'NoneType': 'None'},
                                                                    'data': {'dict:dict': []},
                                                                    'attrs': {'dict:dict': [[{'str': "'AttitudeDataPrecision'"},
                                                                                             {'str': "'Onboard'"}],
                                                                                            [{'str': "'OrbitDataPrecision'"},
                                                                                             {'str': "'Precision'"}],
                                                                                            [{'str': "'MapDirection'"},
                                                                                             {'str': "'MapNorth'"}],
                                                                                            [{'str': "'PSLatitude'"},
                                                                                             {'float': '0.0'}],
                                                                                            [{'str': "'UTM_ZoneNo'"},
                                                                                             {'int': '0'}],
                                                                                            [{'str': "'ResamplingMethod'"},
                                                                                             {'str': "'nearest-neighbor'"}],
                                                                                            [{'str': "'observation_mode'"},
                                                                                             {'str': "'ScanSAR "
                                                                                                     'nominal '
                                                                                                     '28MHz '
                                                                                                     'mode '
                                                                                                     'dual '
                                                                                                     "polarization'"}],
                                                                                            [{'str': "'observation_direction'"},
                                                                                             {'str': "'right "
                                                                                                     "looking'"}],
                                                                                            [{'str': "'processing_level'"},
                                                                                             {'str': "'level "
                                                                                                     "1.1'"}],
                                                                                            [{'str': "'processing_option'"},
                                                                                             {'str': "'not "
                                                                                                     "specified'"}],
                                                                                            [{'str': "'map_projection'"},
                                                                                             {'str': "'not "
                                                                                                     "specified'"}],
                                                                                            [{'str': "'orbit_direction'"},
                                                                                             {'str': "'descending'"}]]}}}},
 'transform_product_spec/typical_reversed/again': {'returned': {'Group': {'path': {'str': "'/'"},
                                                                          'url': {'NoneType': 'None'},
                                                                          'data': {'dict:dict': []},
                                                                          'attrs': {'dict:dict': [[{'str': "'AttitudeDataPrecision'"},
                                                                                                   {'str': "'Onboard'"}],
                                                                                                  [{'str': "'OrbitDataPrecision'"},
                                                                                                   {'str': "'Precision'"}],
                                                                                                  [{'str': "'MapDirection'"},
                                                                                                   {'str': "'MapNorth'"}],
                                                                                                  [{'str': "'PSLatitude'"},
                                                                                                   {'float': '0.0'}],
                                                                                                  [{'str': "'UTM_ZoneNo'"},
                                                                                                   {'int': '0'}],
                                                                                                  [{'str': "'ResamplingMethod'"},
                                                                                                   {'str': "'nearest-neighbor'"}],
                                                                                                  [{'str': "'observation_mode'"},
                                                                                                   {'str': "'ScanSAR "
                                                                                                           'nominal '
                                                                                                           '28MHz '
                                                                                                           'mode '
                                                                                                           'dual '
                                                                                                           "polarization'"}],
                                                                                                  [{'str': "'observation_direction'"},
                                                                                                   {'str': "'right "
                                                                                                           "looking'"}],
                                                                                                  [{'str': "'processing_level'"},
                                                                                                   {'str': "'level "
                                                                                                           "1.1'"}],
                                                                                                  [{'str': "'processing_option'"},
                                                                                                   {'str': "'not "
                                                                                                           "specified'"}],
                                                                                                  [{'str': "'map_projection'"},
                                                                                                   {'str': "'not "
                                                                                                           "specified'"}],
                                                                                                  [{'str': "'orbit_direction'"},
                                                                                                   {'str': "'descending'"}]]}}}},
 'transform_product_spec/typical_reversed/argument': {'list': [{'bool': 'True'}, {'bool': 'True'}]},
 'transform_product_spec/key_collision': {'returned': {'Group': {'path': {'str': "'/'"},
                                                                 'url': {'NoneType': 'None'},
                                                                 'data': {'dict:dict': []},
                                                                 'attrs': {'dict:dict': [[{'str': "'observation_mode'"},
                                                                                          {'str': "'ScanSAR "
                                                                                                  'nominal '
                                                                                                  '28MHz '
                                                                                                  'mode '
                                                                                                  'dual '
                                                                                                  "polarization'"}],
                                                                                         [{'str': "'observation_direction'"},
                                                                                          {'str': "'right "
                                                                                                  "looking'"}],
                                                                                         [{'str': "'processing_level'"},
                                                                                          {'str': "'level "
                                                                                                  "1.1'"}],
                                                                                         [{'str': "'processing_option'"},
                                                                                          {'str': "'not "
                                                                                                  "specified'"}],
                                                                                         [{'str': "'map_projection'"},
                                                                                          {'str': "'not "
                                                                                                  "specified'"}],
                                                                                         [{'str': "'orbit_direction'"},
                                                                                          {'float': '2.0'}]]}}}},
 'transform_product_spec/key_collision/again': {'returned': {'Group': {'path': {'str': "'/'"},
                                                                       'url': {'NoneType': 'None'},
                                                                       'data': {'dict:dict': []},
                                                                       'attrs': {'dict:dict': [[{'str': "'observation_mode'"},
                                                                                                {'str': "'ScanSAR "
                                                                                                        'nominal '
                                                                                                        '28MHz '
                                                                                                        'mode '
                                                                                                        'dual '
                                                                                                        "polarization'"}],
                                                                                               [{'str': "'observation_direction'"},
                                                                                                {'str': "'right "
                                                                                                        "looking'"}],
                                                                                               [{'str': "'processing_level'"},
                                                                                                {'str': "'level "
                                                                                                        "1.1'"}],
                                                                                               [{'str': "'processing_option'"},
                                                                                                {'str': "'not "
                                                                                                        "specified'"}],
                                                                                               [{'str': "'map_projection'"},
                                                                                                {'str': "'not "
                                                                                                        "specified'"}],
                                                                                               [{'str': "'orbit_direction'"},
                                                                                                {'float': '2.0'}]]}}}},
 'transform_product_spec/key_collision/argument': {'list': [{'bool': 'True'}, {'bool': 'True'}]},
 'transform_product_spec/bad_id': {'raised': {'type': 'builtins.ValueError',
                                              'args': {'tuple': [{'str': "'invalid product id: "
                                                                         "WWDR1.1__'"}]},
                                              'str': 'invalid product id: WWDR1.1__',
                                              'cause': None,
                                              'context': None,
                                              'suppress_context': False}},
 'transform_product_spec/bad_id/again': {'raised': {'type': 'builtins.ValueError',
                                                    'args': {'tuple': [{'str': "'invalid product "
                                                                               "id: WWDR1.1__'"}]},
                                                    'str': 'invalid product id: WWDR1.1__',
                                                    'cause': None,
                                                    'context': None,
                                                    'suppress_context': False}},
 'transform_product_spec/bad_id/argument': {'list': [{'bool': 'True'}, {'bool': 'True'}]},
 'transform_product_spec/bad_id_mode': {'raised': {'type': 'builtins.ValueError',
                                                   'args': {'tuple': [{'str': "'invalid product "
                                                                              "id: XXXR1.1__D'"}]},
                                                   'str': 'invalid product id: XXXR1.1__D',
                                                   'cause': {'type': 'builtins.ValueError',
                                                             'args': {'tuple': [{'str': '"invalid '
                                                                                        'code '
                                                                                        '\'XXX\'"'}]},
                                                             'str': "invalid code 'XXX'",
                                                             'cause': None,
                                                             'context': None,
                                                             'suppress_context': False},
                                                   'context': {'type': 'builtins.ValueError',
                                                               'args': {'tuple': [{'str': '"invalid '
                                                                                          'code '
                                                                                          '\'XXX\'"'}]},
                                                               'str': "invalid code 'XXX'",
                                                               'cause': None,
                                                               'context': None,
                                                               'suppress_context': False},
                                                   'suppress_context': True}},
 'transform_product_spec/bad_id_mode/again': {'raised': {'type': 'builtins.ValueError',
                                                         'args': {'tuple': [{'str': "'invalid "
                                                                                    'product id: '
                                                                                    "XXXR1.1__D'"}]},
                                                         'str': 'invalid product id: XXXR1.1__D',
                                                         'cause': {'type': 'builtins.ValueError',
                                                                   'args': {'tuple': [{'str': '"invalid '
                                                                                              'code '
                                                                                              '\'XXX\'"'}]},
                                                                   'str': "invalid code 'XXX'",
                                                                   'cause': None,
                                                                   'context': None,
                                                                   'suppress_context': False},
                                                         'context': {'type': 'builtins.ValueError',
                                                                     'args': {'tuple': [{'str': '"invalid '
                                                                                                'code '
                                                                                                '\'XXX\'"'}]},
                                                                     'str': "invalid code 'XXX'",
                                                                     'cause': None,
                                                                     'context': None,
                                                                     'suppress_context': False},
                                                         'suppress_context': True}},
 'transform_product_spec/bad_id_mode/argument': {'list': [{'bool': 'True'}, {'bool': 'True'}]},
 'transform_product_spec/bad_id_level': {'raised': {'type': 'builtins.ValueError',
                                                    'args': {'tuple': [{'str': "'invalid product "
                                                                               "id: WWDR2.1__D'"}]},
                                                    'str': 'invalid product id: WWDR2.1__D',
                                                    'cause': None,
                                                    'context': None,
                                                    'suppress_context': False}},
 'transform_product_spec/bad_id_level/again': {'raised': {'type': 'builtins.ValueError',
                                                          'args': {'tuple': [{'str': "'invalid "
                                                                                     'product id: '
                                                                                     "WWDR2.1__D'"}]},
                                                          'str': 'invalid product id: WWDR2.1__D',
                                                          'cause': None,
                                                          'context': None,
                                                          'suppress_context': False}},
 'transform_product_spec/bad_id_level/argument': {'list': [{'bool': 'True'}, {'bool': 'True'}]},
 'transform_product_spec/bad_id_trailing': {'raised': {'type': 'builtins.ValueError',
                                                       'args': {'tuple': [{'str': "'invalid "
                                                                                  'product id: '
                                                                                  "WWDR1.1__DD'"}]},
                                                       'str': 'invalid product id: WWDR1.1__DD',
                                                       'cause': None,
                                                       'context': None,
                                                       'suppress_context': False}},
 'transform_product_spec/bad_id_trailing/again': {'raised': {'type': 'builtins.ValueError',
                                                             'args': {'tuple': [{'str': "'invalid "
                                                                                        'product '
                                                                                        'id: '
                                                                                        "WWDR1.1__DD'"}]},
                                                             'str': 'invalid product id: '
                                                                    'WWDR1.1__DD',
                                                             'cause': None,
                                                             'context': None,
                                                             'suppress_context': False}},
 'transform_product_spec/bad_id_trailing/argument': {'list': [{'bool': 'True'}, {'bool': 'True'}]},
 'transform_product_spec/none_id': {'raised': {'type': 'builtins.TypeError',
                                               'args': {'tuple': [{'str': '"expected string or '
                                                                          'bytes-like object, got '
                                                                          '\'NoneType\'"'}]},
                                               'str': 'expected string or bytes-like object, got '
                                                      "'NoneType'",
                                               'cause': None,
                                               'context': None,
                                               'suppress_context': False}},
 'transform_product_spec/none_id/again': {'raised': {'type': 'builtins.TypeError',
                                                     'args': {'tuple': [{'str': '"expected string '
                                                                                'or bytes-like '
                                                                                'object, got '
                                                                                '\'NoneType\'"'}]},
                                                     'str': 'expected string or bytes-like object, '
                                                            "got 'NoneType'",
                                                     'cause': None,
                                                     'context': None,
                                                     'suppress_context': False}},
 'transform_product_spec/none_id/argument': {'list': [{'bool': 'True'}, {'bool': 'True'}]},
 'transform_product_spec/bad_resampling': {'raised': {'type': 'builtins.ValueError',
                                                      'args': {'tuple': [{'str': '"invalid code '
                                                                                 '\'XX\'"'}]},
                                                      'str': "invalid code 'XX'",
                                                      'cause': None,
                                                      'context': None,
                                                      'suppress_context': False}},
 'transform_product_spec/bad_resampling/again': {'raised': {'type': 'builtins.ValueError',
                                                            'args': {'tuple': [{'str': '"invalid '
                                                                                       'code '
                                                                                       '\'XX\'"'}]},
                                                            'str': "invalid code 'XX'",
                                                            'cause': None,
                                                            'context': None,
                                                            'suppress_context': False}},
 'transform_product_spec/bad_resampling/argument': {'list': [{'bool': 'True'}, {'bool': 'True'}]},
 'transform_product_spec/lowercase_resampling': {'raised': {'type': 'builtins.ValueError',
                                                            'args': {'tuple': [{'str': '"invalid '
                                                                                       'code '
                                                                                       '\'nn\'"'}]},
                                                            'str': "invalid code 'nn'",
                                                            'cause': None,
                                                            'context': None,
                                                            'suppress_context': False}},
 'transform_product_spec/lowercase_resampling/again': {'raised': {'type': 'builtins.ValueError',
                                                                  'args': {'tuple': [{'str': '"invalid '
                                                                                             'code '
                                                                                             '\'nn\'"'}]},
                                                                  'str': "invalid code 'nn'",
                                                                  'cause': None,
                                                                  'context': None,
                                                                  'suppress_context': False}},
 'transform_product_spec/lowercase_resampling/argument': {'list': [{'bool': 'True'},
                                                                   {'bool': 'True'}]},
 'transform_product_spec/empty_resampling': {'raised': {'type': 'builtins.ValueError',
                                                        'args': {'tuple': [{'str': '"invalid code '
                                                                                   '\'\'"'}]},
                                                        'str': "invalid code ''",
                                                        'cause': None,
                                                        'context': None,
                                                        'suppress_context': False}},
 'transform_product_spec/empty_resampling/again': {'raised': {'type': 'builtins.ValueError',
                                                              'args': {'tuple': [{'str': '"invalid '
                                                                                         'code '
                                                                                         '\'\'"'}]},
                                                              'str': "invalid code ''",
                                                              'cause': None,
                                                              'context': None,
                                                              'suppress_context': False}},
 'transform_product_spec/empty_resampling/argument': {'list': [{'bool': 'True'}, {'bool': 'True'}]},
 'transform_product_spec/none_resampling': {'raised': {'type': 'builtins.ValueError',
                                                       'args': {'tuple': [{'str': "'invalid code "
                                                                                  "None'"}]},
                                                       'str': 'invalid code None',
                                                       'cause': None,
                                                       'context': None,
                                                       'suppress_context': False}},
 'transform_product_spec/none_resampling/again': {'raised': {'type': 'builtins.ValueError',
                                                             'args': {'tuple': [{'str': "'invalid "
                                                                                        'code '
                                                                                        "None'"}]},
                                                             'str': 'invalid code None',
                                                             'cause': None,
                                                             'context': None,
                                                             'suppress_context': False}},
 'transform_product_spec/none_resampling/argument': {'list': [{'bool': 'True'}, {'bool': 'True'}]},
 'transform_product_spec/unhashable_resampling': {'raised': {'type': 'builtins.TypeError',
                                                             'args': {'tuple': [{'str': '"unhashable '
                                                                                        'type: '
                                                                                        '\'list\'"'}]},
                                                             'str': "unhashable type: 'list'",
                                                             'cause': None,
                                                             'context': None,
                                                             'suppress_context': False}},
 'transform_product_spec/unhashable_resampling/again': {'raised': {'type': 'builtins.TypeError',
                                                                   'args': {'tuple': [{'str': '"unhashable '
                                                                                              'type: '
                                                                                              '\'list\'"'}]},
                                                                   'str': "unhashable type: 'list'",
                                                                   'cause': None,
                                                                   'context': None,
                                                                   'suppress_context': False}},
 'transform_product_spec/unhashable_resampling/argument': {'list': [{'bool': 'True'},
                                                                    {'bool': 'True'}]},
 'transform_product_spec/bad_zone': {'raised': {'type': 'builtins.ValueError',
                                                'args': {'tuple': [{'str': '"invalid literal for '
                                                                           'int() with base 10: '
                                                                           '\'54.0\'"'}]},
                                                'str': 'invalid literal for int() with base 10: '
                                                       "'54.0'",
                                                'cause': None,
                                                'context': None,
                                                'suppress_context': False}},
 'transform_product_spec/bad_zone/again': {'raised': {'type': 'builtins.ValueError',
                                                      'args': {'tuple': [{'str': '"invalid literal '
                                                                                 'for int() with '
                                                                                 'base 10: '
                                                                                 '\'54.0\'"'}]},
                                                      'str': 'invalid literal for int() with base '
                                                             "10: '54.0'",
                                                      'cause': None,
                                                      'context': None,
                                                      'suppress_context': False}},
 'transform_product_spec/bad_zone/argument': {'list': [{'bool': 'True'}, {'bool': 'True'}]},
 'transform_product_spec/bad_float': {'raised': {'type': 'builtins.ValueError',
                                                 'args': {'tuple': [{'str': '"could not convert '
                                                                            'string to float: '
                                                                            '\'two\'"'}]},
                                                 'str': "could not convert string to float: 'two'",
                                                 'cause': None,
                                                 'context': None,
                                                 'suppress_context': False}},
 'transform_product_spec/bad_float/again': {'raised': {'type': 'builtins.ValueError',
                                                       'args': {'tuple': [{'str': '"could not '
                                                                                  'convert string '
                                                                                  'to float: '
                                                                                  '\'two\'"'}]},
                                                       'str': 'could not convert string to float: '
                                                              "'two'",
                                                       'cause': None,
                                                       'context': None,
                                                       'suppress_context': False}},
 'transform_product_spec/bad_float/argument': {'list': [{'bool': 'True'}, {'bool': 'True'}]},
 'transform_product_spec/none_float': {'raised': {'type': 'builtins.TypeError',
                                                  'args': {'tuple': [{'str': '"float() argument '
                                                                             'must be a string or '
                                                                             'a real number, not '
                                                                             '\'NoneType\'"'}]},
                                                  'str': 'float() argument must be a string or a '
                                                         "real number, not 'NoneType'",
                                                  'cause': None,
                                                  'context': None,
                                                  'suppress_context': False}},
 'transform_product_spec/none_float/again': {'raised': {'type': 'builtins.TypeError',
                                                        'args': {'tuple': [{'str': '"float() '
                                                                                   'argument must '
                                                                                   'be a string or '
                                                                                   'a real number, '
                                                                                   'not '
                                                                                   '\'NoneType\'"'}]},
                                                        'str': 'float() argument must be a string '
                                                               "or a real number, not 'NoneType'",
                                                        'cause': None,
                                                        'context': None,
                                                        'suppress_context': False}},
 'transform_product_spec/none_float/argument': {'list': [{'bool': 'True'}, {'bool': 'True'}]},
 'transform_product_spec/bad_float_then_bad_id': {'raised': {'type': 'builtins.ValueError',
                                                             'args': {'tuple': [{'str': '"could '
                                                                                        'not '
                                                                                        'convert '
                                                                                        'string to '
                                                                                        'float: '
                                                                                        '\'two\'"'}]},
                                                             'str': 'could not convert string to '
                                                                    "float: 'two'",
                                                             'cause': None,
                                                             'context': None,
                                                             'suppress_context': False}},
 'transform_product_spec/bad_float_then_bad_id/again': {'raised': {'type': 'builtins.ValueError',
                                                                   'args': {'tuple': [{'str': '"could '
                                                                                              'not '
                                                                                              'convert '
                                                                                              'string '
                                                                                              'to '
                                                                                              'float: '
                                                                                              '\'two\'"'}]},
                                                                   'str': 'could not convert '
                                                                          "string to float: 'two'",
                                                                   'cause': None,
                                                                   'context': None,
                                                                   'suppress_context': False}},
 'transform_product_spec/bad_float_then_bad_id/argument': {'list': [{'bool': 'True'},
                                                                    {'bool': 'True'}]},
 'transform_product_spec/bad_id_then_bad_float': {'raised': {'type': 'builtins.ValueError',
                                                             'args': {'tuple': [{'str': "'invalid "
                                                                                        'product '
                                                                                        "id: x'"}]},
                                                             'str': 'invalid product id: x',
                                                             'cause': None,
                                                             'context': None,
                                                             'suppress_context': False}},
 'transform_product_spec/bad_id_then_bad_float/again': {'raised': {'type': 'builtins.ValueError',
                                                                   'args': {'tuple': [{'str': "'invalid "
                                                                                              'product '
                                                                                              'id: '
                                                                                              "x'"}]},
                                                                   'str': 'invalid product id: x',
                                                                   'cause': None,
                                                                   'context': None,
                                                                   'suppress_context': False}},
 'transform_product_spec/bad_id_then_bad_float/argument': {'list': [{'bool': 'True'},
                                                                    {'bool': 'True'}]},
 'transform_product_spec/not_a_section/none': {'raised': {'type': 'builtins.AttributeError',
                                                          'args': {'tuple': [{'str': '"\'NoneType\' '
                                                                                     'object has '
                                                                                     'no attribute '
                                                                                     '\'items\'"'}]},
                                                          'str': "'NoneType' object has no "
                                                                 "attribute 'items'",
                                                          'cause': None,
                                                          'context': None,
                                                          'suppress_context': False}},
 'transform_product_spec/not_a_section/list': {'raised': {'type': 'builtins.AttributeError',
                                                          'args': {'tuple': [{'str': '"\'list\' '
                                                                                     'object has '
                                                                                     'no attribute '
                                                                                     '\'items\'"'}]},
                                                          'str': "'list' object has no attribute "
                                                                 "'items'",
                                                          'cause': None,
                                                          'context': None,
                                                          'suppress_context': False}},
 'transform_product_spec/not_a_section/string': {'raised': {'type': 'builtins.AttributeError',
                                                            'args': {'tuple': [{'str': '"\'str\' '
                                                                                       'object has '
                                                                                       'no '
                                                                                       'attribute '
                                                                                       '\'items\'"'}]},
                                                            'str': "'str' object has no attribute "
                                                                   "'items'",
                                                            'cause': None,
                                                            'context': None,
                                                            'suppress_context': False}},
 'transform_product_spec/independent': {'list': [{'Group': {'path': {'str': "'/'"},
                                                            'url': {'NoneType': 'None'},
                                                            'data': {'dict:dict': []},
                                                            'attrs': {'dict:dict': [[{'str': "'observation_mode'"},
                                                                                     {'str': "'ScanSAR "
                                                                                             'nominal '
                                                                                             '28MHz '
                                                                                             'mode '
                                                                                             'dual '
                                                                                             "polarization'"}],
                                                                                    [{'str': "'observation_direction'"},
                                                                                     {'str': "'right "
                                                                                             "looking'"}],
                                                                                    [{'str': "'processing_level'"},
                                                                                     {'str': "'level "
                                                                                             "1.1'"}],
                                                                                    [{'str': "'processing_option'"},
                                                                                     {'str': "'not "
                                                                                             "specified'"}],
                                                                                    [{'str': "'map_projection'"},
                                                                                     {'str': "'not "
                                                                                             "specified'"}],
                                                                                    [{'str': "'orbit_direction'"},
                                                                                     {'str': "'descending'"}],
                                                                                    [{'str': "'ResamplingMethod'"},
                                                                                     {'str': "'nearest-neighbor'"}],
                                                                                    [{'str': "'UTM_ZoneNo'"},
                                                                                     {'int': '0'}],
                                                                                    [{'str': "'PSLatitude'"},
                                                                                     {'float': '0.0'}],
                                                                                    [{'str': "'MapDirection'"},
                                                                                     {'str': "'MapNorth'"}],
                                                                                    [{'str': "'OrbitDataPrecision'"},
                                                                                     {'str': "'Precision'"}],
                                                                                    [{'str': "'AttitudeDataPrecision'"},
                                                                                     {'str': "'Onboard'"}]]}}},
                                                 {'bool': 'True'}]},
 'transform_image_info/empty': {'returned': {'Group': {'path': {'str': "'/'"},
                                                       'url': {'NoneType': 'None'},
                                                       'data': {'dict:dict': []},
                                                       'attrs': {'dict:dict': []}}}},
 'transform_image_info/empty/again': {'returned': {'Group': {'path': {'str': "'/'"},
                                                             'url': {'NoneType': 'None'},
                                                             'data': {'dict:dict': []},
                                                             'attrs': {'dict:dict': []}}}},
 'transform_image_info/empty/argument': {'list': [{'bool': 'True'}, {'bool': 'True'}]},
 'transform_image_info/float': {'returned': {'Group': {'path': {'str': "'/'"},
                                                       'url': {'NoneType': 'None'},
                                                       'data': {'dict:dict': []},
                                                       'attrs': {'dict:dict': [[{'str': "'OffNadirAngle'"},
                                                                                {'float': '21.3'}]]}}}},
 'transform_image_info/float/again': {'returned': {'Group': {'path': {'str': "'/'"},
                                                             'url': {'NoneType': 'None'},
                                                             'data': {'dict:dict': []},
                                                             'attrs': {'dict:dict': [[{'str': "'OffNadirAngle'"},
                                                                                      {'float': '21.3'}]]}}}},
 'transform_image_info/float/argument': {'list': [{'bool': 'True'}, {'bool': 'True'}]},
 'transform_image_info/datetime': {'returned': {'Group': {'path': {'str': "'/'"},
                                                          'url': {'NoneType': 'None'},
                                                          'data': {'dict:dict': []},
                                                          'attrs': {'dict:dict': [[{'str': "'SceneCenterDateTime'"},
                                                                                   {'str': "'2018-07-26T13:09:44.204'"}]]}}}},
 'transform_image_info/datetime/again': {'returned': {'Group': {'path': {'str': "'/'"},
                                                                'url': {'NoneType': 'None'},
                                                                'data': {'dict:dict': []},
                                                                'attrs': {'dict:dict': [[{'str': "'SceneCenterDateTime'"},
                                                                                         {'str': "'2018-07-26T13:09:44.204'"}]]}}}},
 'transform_image_info/datetime/argument': {'list': [{'bool': 'True'}, {'bool': 'True'}]},
 'transform_image_info/several_datetimes': {'returned': {'Group': {'path': {'str': "'/'"},
                                                                   'url': {'NoneType': 'None'},
                                                                   'data': {'dict:dict': []},
                                                                   'attrs': {'dict:dict': [[{'str': "'SceneCenterDateTime'"},
                                                                                            {'str': "'2018-07-26T13:09:44.204'"}],
                                                                                           [{'str': "'SceneStartDateTime'"},
                                                                                            {'str': "'2018-07-26T13:09:18.204'"}],
                                                                                           [{'str': "'SceneEndDateTime'"},
                                                                                            {'str': "'2018-07-26T13:10:10.204'"}]]}}}},
 'transform_image_info/several_datetimes/again': {'returned': {'Group': {'path': {'str': "'/'"},
                                                                         'url': {'NoneType': 'None'},
                                                                         'data': {'dict:dict': []},
                                                                         'attrs': {'dict:dict': [[{'str': "'SceneCenterDateTime'"},
                                                                                                  {'str': "'2018-07-26T13:09:44.204'"}],
                                                                                                 [{'str': "'SceneStartDateTime'"},
                                                                                                  {'str': "'2018-07-26T13:09:18.204'"}],
                                                                                                 [{'str': "'SceneEndDateTime'"},
                                                                                                  {'str': "'2018-07-26T13:10:10.204'"}]]}}}},
 'transform_image_info/several_datetimes/argument': {'list': [{'bool': 'True'}, {'bool': 'True'}]},
 'transform_image_info/mixed': {'returned': {'Group': {'path': {'str': "'/'"},
                                                       'url': {'NoneType': 'None'},
                                                       'data': {'dict:dict': []},
                                                       'attrs': {'dict:dict': [[{'str': "'SceneCenterDateTime'"},
                                                                                {'str': "'2018-07-26T13:09:44.204'"}],
                                                                               [{'str': "'ImageSceneCenterLatitude'"},
                                                                                {'float': '34.5'}],
                                                                               [{'str': "'SceneStartDateTime'"},
                                                                                {'str': "'2018-07-26T13:09:18.204'"}],
                                                                               [{'str': "'ImageSceneCenterLongitude'"},
                                                                                {'float': '-135.0'}]]}}}},
 'transform_image_info/mixed/again': {'returned': {'Group': {'path': {'str': "'/'"},
                                                             'url': {'NoneType': 'None'},
                                                             'data': {'dict:dict': []},
                                                             'attrs': {'dict:dict': [[{'str': "'SceneCenterDateTime'"},
                                                                                      {'str': "'2018-07-26T13:09:44.204'"}],
                                                                                     [{'str': "'ImageSceneCenterLatitude'"},
                                                                                      {'float': '34.5'}],
                                                                                     [{'str': "'SceneStartDateTime'"},
                                                                                      {'str': "'2018-07-26T13:09:18.204'"}],
                                                                                     [{'str': "'ImageSceneCenterLongitude'"},
                                                                                      {'float': '-135.0'}]]}}}},
 'transform_image_info/mixed/argument': {'list': [{'bool': 'True'}, {'bool': 'True'}]},
 'transform_image_info/datetime_in_the_middle_of_the_key': {'returned': {'Group': {'path': {'str': "'/'"},
                                                                                   'url': {'NoneType': 'None'},
                                                                                   'data': {'dict:dict': []},
                                                                                   'attrs': {'dict:dict': [[{'str': "'xDateTimeX'"},
                                                                                                            {'str': "'2018-07-26T1'"}]]}}}},
 'transform_image_info/datetime_in_the_middle_of_the_key/again': {'returned': {'Group': {'path': {'str': "'/'"},
                                                                                         'url': {'NoneType': 'None'},
                                                                                         'data': {'dict:dict': []},
                                                                                         'attrs': {'dict:dict': [[{'str': "'xDateTimeX'"},
                                                                                                                  {'str': "'2018-07-26T1'"}]]}}}},
 'transform_image_info/datetime_in_the_middle_of_the_key/argument': {'list': [{'bool': 'True'},
                                                                              {'bool': 'True'}]},
 'transform_image_info/key_is_datetime': {'returned': {'Group': {'path': {'str': "'/'"},
                                                                 'url': {'NoneType': 'None'},
                                                                 'data': {'dict:dict': []},
                                                                 'attrs': {'dict:dict': [[{'str': "'DateTime'"},
                                                                                          {'str': "'2018-07-26T13:09'"}]]}}}},
 'transform_image_info/key_is_datetime/again': {'returned': {'Group': {'path': {'str': "'/'"},
                                                                       'url': {'NoneType': 'None'},
                                                                       'data': {'dict:dict': []},
                                                                       'attrs': {'dict:dict': [[{'str': "'DateTime'"},
                                                                                                {'str': "'2018-07-26T13:09'"}]]}}}},
 'transform_image_info/key_is_datetime/argument': {'list': [{'bool': 'True'}, {'bool': 'True'}]},
 'transform_image_info/lowercase_datetime_key_is_float': {'returned': {'Group': {'path': {'str': "'/'"},
                                                                                 'url': {'NoneType': 'None'},
                                                                                 'data': {'dict:dict': []},
                                                                                 'attrs': {'dict:dict': [[{'str': "'datetime'"},
                                                                                                          {'float': '1.0'}]]}}}},
 'transform_image_info/lowercase_datetime_key_is_float/again': {'returned': {'Group': {'path': {'str': "'/'"},
                                                                                       'url': {'NoneType': 'None'},
                                                                                       'data': {'dict:dict': []},
                                                                                       'attrs': {'dict:dict': [[{'str': "'datetime'"},
                                                                                                                {'float': '1.0'}]]}}}},
 'transform_image_info/lowercase_datetime_key_is_float/argument': {'list': [{'bool': 'True'},
                                                                            {'bool': 'True'}]},
 'transform_image_info/short_date': {'returned': {'Group': {'path': {'str': "'/'"},
                                                            'url': {'NoneType': 'None'},
                                                            'data': {'dict:dict': []},
                                                            'attrs': {'dict:dict': [[{'str': "'ADateTime'"},
                                                                                     {'str': "'2018--T13:09'"}]]}}}},
 'transform_image_info/short_date/again': {'returned': {'Group': {'path': {'str': "'/'"},
                                                                  'url': {'NoneType': 'None'},
                                                                  'data': {'dict:dict': []},
                                                                  'attrs': {'dict:dict': [[{'str': "'ADateTime'"},
                                                                                           {'str': "'2018--T13:09'"}]]}}}},
 'transform_image_info/short_date/argument': {'list': [{'bool': 'True'}, {'bool': 'True'}]},
 'transform_image_info/long_date': {'returned': {'Group': {'path': {'str': "'/'"},
                                                           'url': {'NoneType': 'None'},
                                                           'data': {'dict:dict': []},
                                                           'attrs': {'dict:dict': [[{'str': "'ADateTime'"},
                                                                                    {'str': "'2018-07-261234T13:09'"}]]}}}},
 'transform_image_info/long_date/again': {'returned': {'Group': {'path': {'str': "'/'"},
                                                                 'url': {'NoneType': 'None'},
                                                                 'data': {'dict:dict': []},
                                                                 'attrs': {'dict:dict': [[{'str': "'ADateTime'"},
                                                                                          {'str': "'2018-07-261234T13:09'"}]]}}}},
 'transform_image_info/long_date/argument': {'list': [{'bool': 'True'}, {'bool': 'True'}]},
 'transform_image_info/multiple_spaces': {'returned': {'Group': {'path': {'str': "'/'"},
                                                                 'url': {'NoneType': 'None'},
                                                                 'data': {'dict:dict': []},
                                                                 'attrs': {'dict:dict': [[{'str': "'ADateTime'"},
                                                                                          {'str': "'2018-07-26T13:09:44'"}]]}}}},
 'transform_image_info/multiple_spaces/again': {'returned': {'Group': {'path': {'str': "'/'"},
                                                                       'url': {'NoneType': 'None'},
                                                                       'data': {'dict:dict': []},
                                                                       'attrs': {'dict:dict': [[{'str': "'ADateTime'"},
                                                                                                {'str': "'2018-07-26T13:09:44'"}]]}}}},
 'transform_image_info/multiple_spaces/argument': {'list': [{'bool': 'True'}, {'bool': 'True'}]},
 'transform_image_info/not_a_date': {'returned': {'Group': {'path': {'str': "'/'"},
                                                            'url': {'NoneType': 'None'},
                                                            'data': {'dict:dict': []},
                                                            'attrs': {'dict:dict': [[{'str': "'ADateTime'"},
                                                                                     {'str': "'abc--Tdef'"}]]}}}},
 'transform_image_info/not_a_date/again': {'returned': {'Group': {'path': {'str': "'/'"},
                                                                  'url': {'NoneType': 'None'},
                                                                  'data': {'dict:dict': []},
                                                                  'attrs': {'dict:dict': [[{'str': "'ADateTime'"},
                                                                                           {'str': "'abc--Tdef'"}]]}}}},
 'transform_image_info/not_a_date/argument': {'list': [{'bool': 'True'}, {'bool': 'True'}]},
 'transform_image_info/datetime_without_time': {'raised': {'type': 'builtins.ValueError',
                                                           'args': {'tuple': [{'str': "'not enough "
                                                                                      'values to '
                                                                                      'unpack '
                                                                                      '(expected '
                                                                                      '2, got '
                                                                                      "1)'"}]},
                                                           'str': 'not enough values to unpack '
                                                                  '(expected 2, got 1)',
                                                           'cause': None,
                                                           'context': None,
                                                           'suppress_context': False}},
 'transform_image_info/datetime_without_time/again': {'raised': {'type': 'builtins.ValueError',
                                                                 'args': {'tuple': [{'str': "'not "
                                                                                            'enough '
                                                                                            'values '
                                                                                            'to '
                                                                                            'unpack '
                                                                                            '(expected '
                                                                                            '2, '
                                                                                            'got '
                                                                                            "1)'"}]},
                                                                 'str': 'not enough values to '
                                                                        'unpack (expected 2, got '
                                                                        '1)',
                                                                 'cause': None,
                                                                 'context': None,
                                                                 'suppress_context': False}},
 'transform_image_info/datetime_without_time/argument': {'list': [{'bool': 'True'},
                                                                  {'bool': 'True'}]},
 'transform_image_info/datetime_three_parts': {'raised': {'type': 'builtins.ValueError',
                                                          'args': {'tuple': [{'str': "'too many "
                                                                                     'values to '
                                                                                     'unpack '
                                                                                     '(expected '
                                                                                     "2)'"}]},
                                                          'str': 'too many values to unpack '
                                                                 '(expected 2)',
                                                          'cause': None,
                                                          'context': None,
                                                          'suppress_context': False}},
 'transform_image_info/datetime_three_parts/again': {'raised': {'type': 'builtins.ValueError',
                                                                'args': {'tuple': [{'str': "'too "
                                                                                           'many '
                                                                                           'values '
                                                                                           'to '
                                                                                           'unpack '
                                                                                           '(expected '
                                                                                           "2)'"}]},
                                                                'str': 'too many values to unpack '
                                                                       '(expected 2)',
                                                                'cause': None,
                                                                'context': None,
                                                                'suppress_context': False}},
 'transform_image_info/datetime_three_parts/argument': {'list': [{'bool': 'True'},
                                                                 {'bool': 'True'}]},
 'transform_image_info/datetime_empty': {'raised': {'type': 'builtins.ValueError',
                                                    'args': {'tuple': [{'str': "'not enough values "
                                                                               'to unpack '
                                                                               '(expected 2, got '
                                                                               "0)'"}]},
                                                    'str': 'not enough values to unpack (expected '
                                                           '2, got 0)',
                                                    'cause': None,
                                                    'context': None,
                                                    'suppress_context': False}},
 'transform_image_info/datetime_empty/again': {'raised': {'type': 'builtins.ValueError',
                                                          'args': {'tuple': [{'str': "'not enough "
                                                                                     'values to '
                                                                                     'unpack '
                                                                                     '(expected 2, '
                                                                                     "got 0)'"}]},
                                                          'str': 'not enough values to unpack '
                                                                 '(expected 2, got 0)',
                                                          'cause': None,
                                                          'context': None,
                                                          'suppress_context': False}},
 'transform_image_info/datetime_empty/argument': {'list': [{'bool': 'True'}, {'bool': 'True'}]},
 'transform_image_info/datetime_none': {'raised': {'type': 'builtins.AttributeError',
                                                   'args': {'tuple': [{'str': '"\'NoneType\' '
                                                                              'object has no '
                                                                              'attribute '
                                                                              '\'split\'"'}]},
                                                   'str': "'NoneType' object has no attribute "
                                                          "'split'",
                                                   'cause': None,
                                                   'context': None,
                                                   'suppress_context': False}},
 'transform_image_info/datetime_none/again': {'raised': {'type': 'builtins.AttributeError',
                                                         'args': {'tuple': [{'str': '"\'NoneType\' '
                                                                                    'object has no '
                                                                                    'attribute '
                                                                                    '\'split\'"'}]},
                                                         'str': "'NoneType' object has no "
                                                                "attribute 'split'",
                                                         'cause': None,
                                                         'context': None,
                                                         'suppress_context': False}},
 'transform_image_info/datetime_none/argument': {'list': [{'bool': 'True'}, {'bool': 'True'}]},
 'transform_image_info/bad_float': {'raised': {'type': 'builtins.ValueError',
                                               'args': {'tuple': [{'str': '"could not convert '
                                                                          'string to float: '
                                                                          '\'steep\'"'}]},
                                               'str': "could not convert string to float: 'steep'",
                                               'cause': None,
                                               'context': None,
                                               'suppress_context': False}},
 'transform_image_info/bad_float/again': {'raised': {'type': 'builtins.ValueError',
                                                     'args': {'tuple': [{'str': '"could not '
                                                                                'convert string to '
                                                                                'float: '
                                                                                '\'steep\'"'}]},
                                                     'str': 'could not convert string to float: '
                                                            "'steep'",
                                                     'cause': None,
                                                     'context': None,
                                                     'suppress_context': False}},
 'transform_image_info/bad_float/argument': {'list': [{'bool': 'True'}, {'bool': 'True'}]},
 'transform_image_info/float_none': {'raised': {'type': 'builtins.TypeError',
                                                'args': {'tuple': [{'str': '"float() argument must '
                                                                           'be a string or a real '
                                                                           'number, not '
                                                                           '\'NoneType\'"'}]},
                                                'str': 'float() argument must be a string or a '
                                                       "real number, not 'NoneType'",
                                                'cause': None,
                                                'context': None,
                                                'suppress_context': False}},
 'transform_image_info/float_none/again': {'raised': {'type': 'builtins.TypeError',
                                                      'args': {'tuple': [{'str': '"float() '
                                                                                 'argument must be '
                                                                                 'a string or a '
                                                                                 'real number, not '
                                                                                 '\'NoneType\'"'}]},
                                                      'str': 'float() argument must be a string or '
                                                             "a real number, not 'NoneType'",
                                                      'cause': None,
                                                      'context': None,
                                                      'suppress_context': False}},
 'transform_image_info/float_none/argument': {'list': [{'bool': 'True'}, {'bool': 'True'}]},
 'transform_image_info/bad_float_then_bad_datetime': {'raised': {'type': 'builtins.ValueError',
                                                                 'args': {'tuple': [{'str': '"could '
                                                                                            'not '
                                                                                            'convert '
                                                                                            'string '
                                                                                            'to '
                                                                                            'float: '
                                                                                            '\'steep\'"'}]},
                                                                 'str': 'could not convert string '
                                                                        "to float: 'steep'",
                                                                 'cause': None,
                                                                 'context': None,
                                                                 'suppress_context': False}},
 'transform_image_info/bad_float_then_bad_datetime/again': {'raised': {'type': 'builtins.ValueError',
                                                                       'args': {'tuple': [{'str': '"could '
                                                                                                  'not '
                                                                                                  'convert '
                                                                                                  'string '
                                                                                                  'to '
                                                                                                  'float: '
                                                                                                  '\'steep\'"'}]},
                                                                       'str': 'could not convert '
                                                                              'string to float: '
                                                                              "'steep'",
                                                                       'cause': None,
                                                                       'context': None,
                                                                       'suppress_context': False}},
 'transform_image_info/bad_float_then_bad_datetime/argument': {'list': [{'bool': 'True'},
                                                                        {'bool': 'True'}]},
 'transform_image_info/bad_datetime_then_bad_float': {'raised': {'type': 'builtins.ValueError',
                                                                 'args': {'tuple': [{'str': "'not "
                                                                                            'enough '
                                                                                            'values '
                                                                                            'to '
                                                                                            'unpack '
                                                                                            '(expected '
                                                                                            '2, '
                                                                                            'got '
                                                                                            "0)'"}]},
                                                                 'str': 'not enough values to '
                                                                        'unpack (expected 2, got '
                                                                        '0)',
                                                                 'cause': None,
                                                                 'context': None,
                                                                 'suppress_context': False}},
 'transform_image_info/bad_datetime_then_bad_float/again': {'raised': {'type': 'builtins.ValueError',
                                                                       'args': {'tuple': [{'str': "'not "
                                                                                                  'enough '
                                                                                                  'values '
                                                                                                  'to '
                                                                                                  'unpack '
                                                                                                  '(expected '
                                                                                                  '2, '
                                                                                                  'got '
                                                                                                  "0)'"}]},
                                                                       'str': 'not enough values '
                                                                              'to unpack (expected '
                                                                              '2, got 0)',
                                                                       'cause': None,
                                                                       'context': None,
                                                                       'suppress_context': False}},
 'transform_image_info/bad_datetime_then_bad_float/argument': {'list': [{'bool': 'True'},
                                                                        {'bool': 'True'}]},
 'transform_image_info/non_string_key': {'raised': {'type': 'builtins.TypeError',
                                                    'args': {'tuple': [{'str': '"argument of type '
                                                                               "'int' is not "
                                                                               'iterable"'}]},
                                                    'str': "argument of type 'int' is not iterable",
                                                    'cause': None,
                                                    'context': None,
                                                    'suppress_context': False}},
 'transform_image_info/non_string_key/again': {'raised': {'type': 'builtins.TypeError',
                                                          'args': {'tuple': [{'str': '"argument of '
                                                                                     "type 'int' "
                                                                                     'is not '
                                                                                     'iterable"'}]},
                                                          'str': "argument of type 'int' is not "
                                                                 'iterable',
                                                          'cause': None,
                                                          'context': None,
                                                          'suppress_context': False}},
 'transform_image_info/non_string_key/argument': {'list': [{'bool': 'True'}, {'bool': 'True'}]},
 'transform_image_info/tuple_key': {'returned': {'Group': {'path': {'str': "'/'"},
                                                           'url': {'NoneType': 'None'},
                                                           'data': {'dict:dict': []},
                                                           'attrs': {'dict:dict': [[{'tuple': [{'str': "'DateTime'"}]},
                                                                                    {'str': "'2018-07-26T13:09'"}],
                                                                                   [{'tuple': [{'str': "'Other'"}]},
                                                                                    {'float': '1.0'}]]}}}},
 'transform_image_info/tuple_key/again': {'returned': {'Group': {'path': {'str': "'/'"},
                                                                 'url': {'NoneType': 'None'},
                                                                 'data': {'dict:dict': []},
                                                                 'attrs': {'dict:dict': [[{'tuple': [{'str': "'DateTime'"}]},
                                                                                          {'str': "'2018-07-26T13:09'"}],
                                                                                         [{'tuple': [{'str': "'Other'"}]},
                                                                                          {'float': '1.0'}]]}}}},
 'transform_image_info/tuple_key/argument': {'list': [{'bool': 'True'}, {'bool': 'True'}]},
 'transform_image_info/not_a_section/none': {'raised': {'type': 'builtins.AttributeError',
                                                        'args': {'tuple': [{'str': '"\'NoneType\' '
                                                                                   'object has no '
                                                                                   'attribute '
                                                                                   '\'items\'"'}]},
                                                        'str': "'NoneType' object has no attribute "
                                                               "'items'",
                                                        'cause': None,
                                                        'context': None,
                                                        'suppress_context': False}},
 'transform_image_info/not_a_section/list': {'raised': {'type': 'builtins.AttributeError',
                                                        'args': {'tuple': [{'str': '"\'list\' '
                                                                                   'object has no '
                                                                                   'attribute '
                                                                                   '\'items\'"'}]},
                                                        'str': "'list' object has no attribute "
                                                               "'items'",
                                                        'cause': None,
                                                        'context': None,
                                                        'suppress_context': False}},
 'transform_image_info/not_a_section/string': {'raised': {'type': 'builtins.AttributeError',
                                                          'args': {'tuple': [{'str': '"\'str\' '
                                                                                     'object has '
                                                                                     'no attribute '
                                                                                     '\'items\'"'}]},
                                                          'str': "'str' object has no attribute "
                                                                 "'items'",
                                                          'cause': None,
                                                          'context': None,
                                                          'suppress_context': False}},
 'transform_image_info/independent': {'list': [{'Group': {'path': {'str': "'/'"},
                                                          'url': {'NoneType': 'None'},
                                                          'data': {'dict:dict': []},
                                                          'attrs': {'dict:dict': []}}},
                                               {'bool': 'True'}]},
 'transform_label_info/empty': {'returned': {'Group': {'path': {'str': "'/'"},
                                                       'url': {'NoneType': 'None'},
                                                       'data': {'dict:dict': []},
                                                       'attrs': {'dict:dict': []}}}},
 'transform_label_info/empty/again': {'returned': {'Group': {'path': {'str': "'/'"},
                                                             'url': {'NoneType': 'None'},
                                                             'data': {'dict:dict': []},
                                                             'attrs': {'dict:dict': []}}}},
 'transform_label_info/empty/argument': {'list': [{'bool': 'True'}, {'bool': 'True'}]},
 'transform_label_info/sensor': {'returned': {'Group': {'path': {'str': "'/'"},
                                                        'url': {'NoneType': 'None'},
                                                        'data': {'dict:dict': []},
                                                        'attrs': {'dict:dict': [[{'str': "'Sensor'"},
                                                                                 {'str': "'SAR'"}]]}}}},
 'transform_label_info/sensor/again': {'returned': {'Group': {'path': {'str': "'/'"},
                                                              'url': {'NoneType': 'None'},
                                                              'data': {'dict:dict': []},
                                                              'attrs': {'dict:dict': [[{'str': "'Sensor'"},
                                                                                       {'str': "'SAR'"}]]}}}},
 'transform_label_info/sensor/argument': {'list': [{'bool': 'True'}, {'bool': 'True'}]},
 'transform_label_info/date': {'returned': {'Group': {'path': {'str': "'/'"},
                                                      'url': {'NoneType': 'None'},
                                                      'data': {'dict:dict': []},
                                                      'attrs': {'dict:dict': [[{'str': "'ObservationDate'"},
                                                                               {'str': "'2018-07-26'"}]]}}}},
 'transform_label_info/date/again': {'returned': {'Group': {'path': {'str': "'/'"},
                                                            'url': {'NoneType': 'None'},
                                                            'data': {'dict:dict': []},
                                                            'attrs': {'dict:dict': [[{'str': "'ObservationDate'"},
                                                                                     {'str': "'2018-07-26'"}]]}}}},
 'transform_label_info/date/argument': {'list': [{'bool': 'True'}, {'bool': 'True'}]},
 'transform_label_info/short_date': {'returned': {'Group': {'path': {'str': "'/'"},
                                                            'url': {'NoneType': 'None'},
                                                            'data': {'dict:dict': []},
                                                            'attrs': {'dict:dict': [[{'str': "'ObservationDate'"},
                                                                                     {'str': "'2018--'"}]]}}}},
 'transform_label_info/short_date/again': {'returned': {'Group': {'path': {'str': "'/'"},
                                                                  'url': {'NoneType': 'None'},
                                                                  'data': {'dict:dict': []},
                                                                  'attrs': {'dict:dict': [[{'str': "'ObservationDate'"},
                                                                                           {'str': "'2018--'"}]]}}}},
 'transform_label_info/short_date/argument': {'list': [{'bool': 'True'}, {'bool': 'True'}]},
 'transform_label_info/empty_date': {'returned': {'Group': {'path': {'str': "'/'"},
                                                            'url': {'NoneType': 'None'},
                                                            'data': {'dict:dict': []},
                                                            'attrs': {'dict:dict': [[{'str': "'ObservationDate'"},
                                                                                     {'str': "'--'"}]]}}}},
 'transform_label_info/empty_date/again': {'returned': {'Group': {'path': {'str': "'/'"},
                                                                  'url': {'NoneType': 'None'},
                                                                  'data': {'dict:dict': []},
                                                                  'attrs': {'dict:dict': [[{'str': "'ObservationDate'"},
                                                                                           {'str': "'--'"}]]}}}},
 'transform_label_info/empty_date/argument': {'list': [{'bool': 'True'}, {'bool': 'True'}]},
 'transform_label_info/facility_scmo': {'returned': {'Group': {'path': {'str': "'/'"},
                                                               'url': {'NoneType': 'None'},
                                                               'data': {'dict:dict': []},
                                                               'attrs': {'dict:dict': [[{'str': "'ProcessFacility'"},
                                                                                        {'str': "'spacecraft "
                                                                                                'control '
                                                                                                'mission '
                                                                                                'operation '
                                                                                                "system'"}]]}}}},
 'transform_label_info/facility_scmo/again': {'returned': {'Group': {'path': {'str': "'/'"},
                                                                     'url': {'NoneType': 'None'},
                                                                     'data': {'dict:dict': []},
                                                                     'attrs': {'dict:dict': [[{'str': "'ProcessFacility'"},
                                                                                              {'str': "'spacecraft "
                                                                                                      'control '
                                                                                                      'mission '
                                                                                                      'operation '
                                                                                                      "system'"}]]}}}},
 'transform_label_info/facility_scmo/argument': {'list': [{'bool': 'True'}, {'bool': 'True'}]},
 'transform_label_info/facility_eics': {'returned': {'Group': {'path': {'str': "'/'"},
                                                               'url': {'NoneType': 'None'},
                                                               'data': {'dict:dict': []},
                                                               'attrs': {'dict:dict': [[{'str': "'ProcessFacility'"},
                                                                                        {'str': "'earth "
                                                                                                'intelligence '
                                                                                                'collection '
                                                                                                'and '
                                                                                                'sharing '
                                                                                                "system'"}]]}}}},
 'transform_label_info/facility_eics/again': {'returned': {'Group': {'path': {'str': "'/'"},
                                                                     'url': {'NoneType': 'None'},
                                                                     'data': {'dict:dict': []},
                                                                     'attrs': {'dict:dict': [[{'str': "'ProcessFacility'"},
                                                                                              {'str': "'earth "
                                                                                                      'intelligence '
                                                                                                      'collection '
                                                                                                      'and '
                                                                                                      'sharing '
                                                                                                      "system'"}]]}}}},
 'transform_label_info/facility_eics/argument': {'list': [{'bool': 'True'}, {'bool': 'True'}]},
 'transform_label_info/typical': {'returned': {'Group': {'path': {'str': "'/'"},
                                                         'url': {'NoneType': 'None'},
                                                         'data': {'dict:dict': []},
                                                         'attrs': {'dict:dict': [[{'str': "'Satellite'"},
                                                                                  {'str': "'ALOS2'"}],
                                                                                 [{'str': "'Sensor'"},
                                                                                  {'str': "'SAR'"}],
                                                                                 [{'str': "'ProcessLevel'"},
                                                                                  {'str': "'1.1'"}],
                                                                                 [{'str': "'ProcessFacility'"},
                                                                                  {'str': "'spacecraft "
                                                                                          'control '
                                                                                          'mission '
                                                                                          'operation '
                                                                                          "system'"}],
                                                                                 [{'str': "'ObservationDate'"},
                                                                                  {'str': "'2018-07-26'"}]]}}}},
 'transform_label_info/typical/again': {'returned': {'Group': {'path': {'str': "'/'"},
                                                               'url': {'NoneType': 'None'},
                                                               'data': {'dict:dict': []},
                                                               'attrs': {'dict:dict': [[{'str': "'Satellite'"},
                                                                                        {'str': "'ALOS2'"}],
                                                                                       [{'str': "'Sensor'"},
                                                                                        {'str': "'SAR'"}],
                                                                                       [{'str': "'ProcessLevel'"},
                                                                                        {'str': "'1.1'"}],
                                                                                       [{'str': "'ProcessFacility'"},
                                                                                        {'str': "'spacecraft "
                                                                                                'control '
                                                                                                'mission '
                                                                                                'operation '
                                                                                                "system'"}],
                                                                                       [{'str': "'ObservationDate'"},
                                                                                        {'str': "'2018-07-26'"}]]}}}},
 'transform_label_info/typical/argument': {'list': [{'bool': 'True'}, {'bool': 'True'}]},
 'transform_label_info/date_list': {'returned': {'Group': {'path': {'str': "'/'"},
                                                           'url': {'NoneType': 'None'},
                                                           'data': {'dict:dict': []},
                                                           'attrs': {'dict:dict': [[{'str': "'ObservationDate'"},
                                                                                    {'str': '"[\'2\', '
                                                                                            "'0', "
                                                                                            "'1', "
                                                                                            "'8']-['0', "
                                                                                            "'7']-['2', "
                                                                                            '\'6\']"'}]]}}}},
 'transform_label_info/date_list/again': {'returned': {'Group': {'path': {'str': "'/'"},
                                                                 'url': {'NoneType': 'None'},
                                                                 'data': {'dict:dict': []},
                                                                 'attrs': {'dict:dict': [[{'str': "'ObservationDate'"},
                                                                                          {'str': '"[\'2\', '
                                                                                                  "'0', "
                                                                                                  "'1', "
                                                                                                  "'8']-['0', "
                                                                                                  "'7']-['2', "
                                                                                                  '\'6\']"'}]]}}}},
 'transform_label_info/date_list/argument': {'list': [{'bool': 'True'}, {'bool': 'True'}]},
 'transform_label_info/bad_facility': {'raised': {'type': 'builtins.ValueError',
                                                  'args': {'tuple': [{'str': '"invalid code '
                                                                             '\'JAXA\'"'}]},
                                                  'str': "invalid code 'JAXA'",
                                                  'cause': None,
                                                  'context': None,
                                                  'suppress_context': False}},
 'transform_label_info/bad_facility/again': {'raised': {'type': 'builtins.ValueError',
                                                        'args': {'tuple': [{'str': '"invalid code '
                                                                                   '\'JAXA\'"'}]},
                                                        'str': "invalid code 'JAXA'",
                                                        'cause': None,
                                                        'context': None,
                                                        'suppress_context': False}},
 'transform_label_info/bad_facility/argument': {'list': [{'bool': 'True'}, {'bool': 'True'}]},
 'transform_label_info/none_facility': {'raised': {'type': 'builtins.ValueError',
                                                   'args': {'tuple': [{'str': "'invalid code "
                                                                              "None'"}]},
                                                   'str': 'invalid code None',
                                                   'cause': None,
                                                   'context': None,
                                                   'suppress_context': False}},
 'transform_label_info/none_facility/again': {'raised': {'type': 'builtins.ValueError',
                                                         'args': {'tuple': [{'str': "'invalid code "
                                                                                    "None'"}]},
                                                         'str': 'invalid code None',
                                                         'cause': None,
                                                         'context': None,
                                                         'suppress_context': False}},
 'transform_label_info/none_facility/argument': {'list': [{'bool': 'True'}, {'bool': 'True'}]},
 'transform_label_info/unhashable_facility': {'raised': {'type': 'builtins.TypeError',
                                                         'args': {'tuple': [{'str': '"unhashable '
                                                                                    'type: '
                                                                                    '\'dict\'"'}]},
                                                         'str': "unhashable type: 'dict'",
                                                         'cause': None,
                                                         'context': None,
                                                         'suppress_context': False}},
 'transform_label_info/unhashable_facility/again': {'raised': {'type': 'builtins.TypeError',
                                                               'args': {'tuple': [{'str': '"unhashable '
                                                                                          'type: '
                                                                                          '\'dict\'"'}]},
                                                               'str': "unhashable type: 'dict'",
                                                               'cause': None,
                                                               'context': None,
                                                               'suppress_context': False}},
 'transform_label_info/unhashable_facility/argument': {'list': [{'bool': 'True'},
                                                                {'bool': 'True'}]},
 'transform_label_info/none_date': {'raised': {'type': 'builtins.TypeError',
                                               'args': {'tuple': [{'str': '"\'NoneType\' object is '
                                                                          'not subscriptable"'}]},
                                               'str': "'NoneType' object is not subscriptable",
                                               'cause': None,
                                               'context': None,
                                               'suppress_context': False}},
 'transform_label_info/none_date/again': {'raised': {'type': 'builtins.TypeError',
                                                     'args': {'tuple': [{'str': '"\'NoneType\' '
                                                                                'object is not '
                                                                                'subscriptable"'}]},
                                                     'str': "'NoneType' object is not "
                                                            'subscriptable',
                                                     'cause': None,
                                                     'context': None,
                                                     'suppress_context': False}},
 'transform_label_info/none_date/argument': {'list': [{'bool': 'True'}, {'bool': 'True'}]},
 'transform_label_info/bad_facility_then_bad_date': {'raised': {'type': 'builtins.ValueError',
                                                                'args': {'tuple': [{'str': '"invalid '
                                                                                           'code '
                                                                                           '\'JAXA\'"'}]},
                                                                'str': "invalid code 'JAXA'",
                                                                'cause': None,
                                                                'context': None,
                                                                'suppress_context': False}},
 'transform_label_info/bad_facility_then_bad_date/again': {'raised': {'type': 'builtins.ValueError',
                                                                      'args': {'tuple': [{'str': '"invalid '
                                                                                                 'code '
                                                                                                 '\'JAXA\'"'}]},
                                                                      'str': "invalid code 'JAXA'",
                                                                      'cause': None,
                                                                      'context': None,
                                                                      'suppress_context': False}},
 'transform_label_info/bad_facility_then_bad_date/argument': {'list': [{'bool': 'True'},
                                                                       {'bool': 'True'}]},
 'transform_label_info/bad_date_then_bad_facility': {'raised': {'type': 'builtins.TypeError',
                                                                'args': {'tuple': [{'str': '"\'NoneType\' '
                                                                                           'object '
                                                                                           'is not '
                                                                                           'subscriptable"'}]},
                                                                'str': "'NoneType' object is not "
                                                                       'subscriptable',
                                                                'cause': None,
                                                                'context': None,
                                                                'suppress_context': False}},
 'transform_label_info/bad_date_then_bad_facility/again': {'raised': {'type': 'builtins.TypeError',
                                                                      'args': {'tuple': [{'str': '"\'NoneType\' '
                                                                                                 'object '
                                                                                                 'is '
                                                                                                 'not '
                                                                                                 'subscriptable"'}]},
                                                                      'str': "'NoneType' object is "
                                                                             'not subscriptable',
                                                                      'cause': None,
                                                                      'context': None,
                                                                      'suppress_context': False}},
 'transform_label_info/bad_date_then_bad_facility/argument': {'list': [{'bool': 'True'},
                                                                       {'bool': 'True'}]},
 'transform_label_info/not_a_section/none': {'raised': {'type': 'builtins.AttributeError',
                                                        'args': {'tuple': [{'str': '"\'NoneType\' '
                                                                                   'object has no '
                                                                                   'attribute '
                                                                                   '\'items\'"'}]},
                                                        'str': "'NoneType' object has no attribute "
                                                               "'items'",
                                                        'cause': None,
                                                        'context': None,
                                                        'suppress_context': False}},
 'transform_label_info/not_a_section/list': {'raised': {'type': 'builtins.AttributeError',
                                                        'args': {'tuple': [{'str': '"\'list\' '
                                                                                   'object has no '
                                                                                   'attribute '
                                                                                   '\'items\'"'}]},
                                                        'str': "'list' object has no attribute "
                                                               "'items'",
                                                        'cause': None,
                                                        'context': None,
                                                        'suppress_context': False}},
 'transform_label_info/not_a_section/string': {'raised': {'type': 'builtins.AttributeError',
                                                          'args': {'tuple': [{'str': '"\'str\' '
                                                                                     'object has '
                                                                                     'no attribute '
                                                                                     '\'items\'"'}]},
                                                          'str': "'str' object has no attribute "
                                                                 "'items'",
                                                          'cause': None,
                                                          'context': None,
                                                          'suppress_context': False}},
 'transform_label_info/independent': {'list': [{'Group': {'path': {'str': "'/'"},
                                                          'url': {'NoneType': 'None'},
                                                          'data': {'dict:dict': []},
                                                          'attrs': {'dict:dict': [[{'str': "'Satellite'"},
                                                                                   {'str': "'ALOS2'"}],
                                                                                  [{'str': "'Sensor'"},
                                                                                   {'str': "'SAR'"}],
                                                                                  [{'str': "'ProcessLevel'"},
                                                                                   {'str': "'1.1'"}],
                                                                                  [{'str': "'ProcessFacility'"},
                                                                                   {'str': "'spacecraft "
                                                                                           'control '
                                                                                           'mission '
                                                                                           'operation '
                                                                                           "system'"}],
                                                                                  [{'str': "'ObservationDate'"},
                                                                                   {'str': "'2018-07-26'"}]]}}},
                                               {'bool': 'True'}]},
 'transform_label_info/new_attrs': {'bool': 'True'},
 'late/resampling_methods/rebound/new': {'returned': {'Group': {'path': {'str': "'/'"},
                                                                'url': {'NoneType': 'None'},
                                                                'data': {'dict:dict': []},
                                                                'attrs': {'dict:dict': [[{'str': "'ResamplingMethod'"},
                                                                                         {'str': "'something "
                                                                                                 "else'"}]]}}}},
 'late/resampling_methods/rebound/old': {'raised': {'type': 'builtins.ValueError',
                                                    'args': {'tuple': [{'str': '"invalid code '
                                                                               '\'NN\'"'}]},
                                                    'str': "invalid code 'NN'",
                                                    'cause': None,
                                                    'context': None,
                                                    'suppress_context': False}},
 'late/resampling_methods/in_place': {'returned': {'Group': {'path': {'str': "'/'"},
                                                             'url': {'NoneType': 'None'},
                                                             'data': {'dict:dict': []},
                                                             'attrs': {'dict:dict': [[{'str': "'ResamplingMethod'"},
                                                                                      {'str': "'added "
                                                                                              'in '
                                                                                              "place'"}]]}}}},
 'late/resampling_methods/restored': {'raised': {'type': 'builtins.ValueError',
                                                 'args': {'tuple': [{'str': '"invalid code '
                                                                            '\'ZZ\'"'}]},
                                                 'str': "invalid code 'ZZ'",
                                                 'cause': None,
                                                 'context': None,
                                                 'suppress_context': False}},
 'late/processing_facilities/rebound': {'returned': {'Group': {'path': {'str': "'/'"},
                                                               'url': {'NoneType': 'None'},
                                                               'data': {'dict:dict': []},
                                                               'attrs': {'dict:dict': [[{'str': "'ProcessFacility'"},
                                                                                        {'str': "'the "
                                                                                                "agency'"}]]}}}},
 'late/lookup/product_spec': {'returned': {'Group': {'path': {'str': "'/'"},
                                                     'url': {'NoneType': 'None'},
                                                     'data': {'dict:dict': []},
                                                     'attrs': {'dict:dict': [[{'str': "'ResamplingMethod'"},
                                                                              {'tuple': [{'str': "'looked "
                                                                                                 "up'"},
                                                                                         {'list': [{'str': "'BL'"},
                                                                                                   {'str': "'CC'"},
                                                                                                   {'str': "'NN'"}]},
                                                                                         {'str': "'NN'"}]}]]}}}},
 'late/lookup/label_info': {'returned': {'Group': {'path': {'str': "'/'"},
                                                   'url': {'NoneType': 'None'},
                                                   'data': {'dict:dict': []},
                                                   'attrs': {'dict:dict': [[{'str': "'ProcessFacility'"},
                                                                            {'tuple': [{'str': "'looked "
                                                                                               "up'"},
                                                                                       {'list': [{'str': "'EICS'"},
                                                                                                 {'str': "'SCMO'"}]},
                                                                                       {'str': "'SCMO'"}]}]]}}}},
 'late/decode_product_id': {'returned': {'Group': {'path': {'str': "'/'"},
                                                   'url': {'NoneType': 'None'},
                                                   'data': {'dict:dict': []},
                                                   'attrs': {'dict:dict': [[{'str': "'product'"},
                                                                            {'str': "'anything'"}],
                                                                           [{'str': "'nested'"},
                                                                            {'dict:dict': [[{'str': "'a'"},
                                                                                            {'int': '1'}]]}]]}}}},
 'late/decode_scene_id': {'returned': {'Group': {'path': {'str': "'/'"},
                                                 'url': {'NoneType': 'None'},
                                                 'data': {'dict:dict': []},
                                                 'attrs': {'dict:dict': [[{'str': "'scene_frame'"},
                                                                          {'int': '12'}],
                                                                         [{'str': "'other'"},
                                                                          {'str': "'anything'"}]]}}}},
 'late/reformat_date/label_info': {'returned': {'Group': {'path': {'str': "'/'"},
                                                          'url': {'NoneType': 'None'},
                                                          'data': {'dict:dict': []},
                                                          'attrs': {'dict:dict': [[{'str': "'ObservationDate'"},
                                                                                   {'tuple': [{'str': "'reformatted'"},
                                                                                              {'str': "'20180726'"}]}]]}}}},
 'late/reformat_date/image_info': {'returned': {'Group': {'path': {'str': "'/'"},
                                                          'url': {'NoneType': 'None'},
                                                          'data': {'dict:dict': []},
                                                          'attrs': {'dict:dict': [[{'str': "'ADateTime'"},
                                                                                   {'str': '"(\'reformatted\', '
                                                                                           '\'20180726\')T13:09"'}]]}}}},
 'late/to_isoformat': {'returned': {'Group': {'path': {'str': "'/'"},
                                              'url': {'NoneType': 'None'},
                                              'data': {'dict:dict': []},
                                              'attrs': {'dict:dict': [[{'str': "'ADateTime'"},
                                                                       {'tuple': [{'str': "'iso'"},
                                                                                  {'str': "'20180726 "
                                                                                          "13:09'"}]}],
                                                                      [{'str': "'B'"},
                                                                       {'float': '1.0'}]]}}}},
 'late/apply_to_items/transform_scene_spec': {'returned': {'Group': {'path': {'str': "'/'"},
                                                                     'url': {'NoneType': 'None'},
                                                                     'data': {'dict:dict': []},
                                                                     'attrs': {'dict:dict': [[{'str': "'funcs'"},
                                                                                              {'list': [{'str': "'SceneID'"},
                                                                                                        {'str': "'SceneShift'"}]}]]}}}},
 'late/apply_to_items/transform_product_spec': {'returned': {'Group': {'path': {'str': "'/'"},
                                                                       'url': {'NoneType': 'None'},
                                                                       'data': {'dict:dict': []},
                                                                       'attrs': {'dict:dict': [[{'str': "'funcs'"},
                                                                                                {'list': [{'str': "'AttitudeDataPrecision'"},
                                                                                                          {'str': "'MapDirection'"},
                                                                                                          {'str': "'OrbitDataPrecision'"},
                                                                                                          {'str': "'ProductID'"},
                                                                                                          {'str': "'ResamplingMethod'"},
                                                                                                          {'str': "'UTM_ZoneNo'"}]}]]}}}},
 'late/apply_to_items/transform_image_info': {'returned': {'Group': {'path': {'str': "'/'"},
                                                                     'url': {'NoneType': 'None'},
                                                                     'data': {'dict:dict': []},
                                                                     'attrs': {'dict:dict': []}}}},
 'late/apply_to_items/transform_label_info': {'returned': {'Group': {'path': {'str': "'/'"},
                                                                     'url': {'NoneType': 'None'},
                                                                     'data': {'dict:dict': []},
                                                                     'attrs': {'dict:dict': [[{'str': "'funcs'"},
                                                                                              {'list': [{'str': "'ObservationDate'"},
                                                                                                        {'str': "'ProcessFacility'"}]}]]}}}},
 'late/restored': {'list': [{'Group': {'path': {'str': "'/'"},
                                       'url': {'NoneType': 'None'},
                                       'data': {'dict:dict': []},
                                       'attrs': {'dict:dict': []}}},
                            {'Group': {'path': {'str': "'/'"},
                                       'url': {'NoneType': 'None'},
                                       'data': {'dict:dict': []},
                                       'attrs': {'dict:dict': [[{'str': "'observation_mode'"},
                                                                {'str': "'ScanSAR nominal 28MHz "
                                                                        "mode dual polarization'"}],
                                                               [{'str': "'observation_direction'"},
                                                                {'str': "'right looking'"}],
                                                               [{'str': "'processing_level'"},
                                                                {'str': "'level 1.1'"}],
                                                               [{'str': "'processing_option'"},
                                                                {'str': "'not specified'"}],
                                                               [{'str': "'map_projection'"},
                                                                {'str': "'not specified'"}],
                                                               [{'str': "'orbit_direction'"},
                                                                {'str': "'descending'"}],
                                                               [{'str': "'ResamplingMethod'"},
                                                                {'str': "'nearest-neighbor'"}],
                                                               [{'str': "'UTM_ZoneNo'"},
                                                                {'int': '0'}],
                                                               [{'str': "'PSLatitude'"},
                                                                {'float': '0.0'}],
                                                               [{'str': "'MapDirection'"},
                                                                {'str': "'MapNorth'"}],
                                                               [{'str': "'OrbitDataPrecision'"},
                                                                {'str': "'Precision'"}],
                                                               [{'str': "'AttitudeDataPrecision'"},
                                                                {'str': "'Onboard'"}]]}}},
                            {'Group': {'path': {'str': "'/'"},
                                       'url': {'NoneType': 'None'},
                                       'data': {'dict:dict': []},
                                       'attrs': {'dict:dict': []}}},
                            {'Group': {'path': {'str': "'/'"},
                                       'url': {'NoneType': 'None'},
                                       'data': {'dict:dict': []},
                                       'attrs': {'dict:dict': [[{'str': "'Satellite'"},
                                                                {'str': "'ALOS2'"}],
                                                               [{'str': "'Sensor'"},
                                                                {'str': "'SAR'"}],
                                                               [{'str': "'ProcessLevel'"},
                                                                {'str': "'1.1'"}],
                                                               [{'str': "'ProcessFacility'"},
                                                                {'str': "'spacecraft control "
                                                                        'mission operation '
                                                                        "system'"}],
                                                               [{'str': "'ObservationDate'"},
                                                                {'str': "'2018-07-26'"}]]}}}]},
 'transform_summary/typical': {'returned': {'Group': {'path': {'str': "'summary'"},
                                                      'url': {'NoneType': 'None'},
                                                      'data': {'dict:dict': [[{'str': "'scene_specification'"},
                                                                              {'Group': {'path': {'str': "'summary/scene_specification'"},
                                                                                         'url': {'NoneType': 'None'},
                                                                                         'data': {'dict:dict': []},
                                                                                         'attrs': {'dict:dict': [[{'str': "'mission_name'"},
                                                                                                                  {'str': "'ALOS2'"}],
                                                                                                                 [{'str': "'orbit_accumulation'"},
                                                                                                                  {'int': '22533'}],
                                                                                                                 [{'str': "'scene_frame'"},
                                                                                                                  {'int': '3200'}],
                                                                                                                 [{'str': "'date'"},
                                                                                                                  {'str': "'2018-07-26'"}],
                                                                                                                 [{'str': "'SceneShift'"},
                                                                                                                  {'int': '1'}]]}}}],
                                                                             [{'str': "'product_specification'"},
                                                                              {'Group': {'path': {'str': "'summary/product_specification'"},
                                                                                         'url': {'NoneType': 'None'},
                                                                                         'data': {'dict:dict': []},
                                                                                         'attrs': {'dict:dict': [[{'str': "'observation_mode'"},
                                                                                                                  {'str': "'ScanSAR "
                                                                                                                          'nominal '
                                                                                                                          '28MHz '
                                                                                                                          'mode '
                                                                                                                          'dual '
                                                                                                                          "polarization'"}],
                                                                                                                 [{'str': "'observation_direction'"},
                                                                                                                  {'str': "'right "
                                                                                                                          "looking'"}],
                                                                                                                 [{'str': "'processing_level'"},
                                                                                                                  {'str': "'level "
                                                                                                                          "1.1'"}],
                                                                                                                 [{'str': "'processing_option'"},
                                                                                                                  {'str': "'not "
                                                                                                                          "specified'"}],
                                                                                                                 [{'str': "'map_projection'"},
                                                                                                                  {'str': "'not "
                                                                                                                          "specified'"}],
                                                                                                                 [{'str': "'orbit_direction'"},
                                                                                                                  {'str': "'descending'"}],
                                                                                                                 [{'str': "'ResamplingMethod'"},
                                                                                                                  {'str': "'nearest-neighbor'"}],
                                                                                                                 [{'str': "'UTM_ZoneNo'"},
                                                                                                                  {'int': '0'}],
                                                                                                                 [{'str': "'PSLatitude'"},
                                                                                                                  {'float': '0.0'}],
                                                                                                                 [{'str': "'MapDirection'"},
                                                                                                                  {'str': "'MapNorth'"}],
                                                                                                                 [{'str': "'OrbitDataPrecision'"},
                                                                                                                  {'str': "'Precision'"}],
                                                                                                                 [{'str': "'AttitudeDataPrecision'"},
                                                                                                                  {'str': "'Onboard'"}]]}}}],
                                                                             [{'str': "'image_information'"},
                                                                              {'Group': {'path': {'str': "'summary/image_information'"},
                                                                                         'url': {'NoneType': 'None'},
                                                                                         'data': {'dict:dict': []},
                                                                                         'attrs': {'dict:dict': [[{'str': "'SceneCenterDateTime'"},
                                                                                                                  {'str': "'2018-07-26T13:09:44.204'"}],
                                                                                                                 [{'str': "'ImageSceneCenterLatitude'"},
                                                                                                                  {'float': '34.5'}],
                                                                                                                 [{'str': "'SceneStartDateTime'"},
                                                                                                                  {'str': "'2018-07-26T13:09:18.204'"}],
                                                                                                                 [{'str': "'ImageSceneCenterLongitude'"},
                                                                                                                  {'float': '-135.0'}]]}}}],
                                                                             [{'str': "'label_information'"},
                                                                              {'Group': {'path': {'str': "'summary/label_information'"},
                                                                                         'url': {'NoneType': 'None'},
                                                                                         'data': {'dict:dict': []},
                                                                                         'attrs': {'dict:dict': [[{'str': "'Satellite'"},
                                                                                                                  {'str': "'ALOS2'"}],
                                                                                                                 [{'str': "'Sensor'"},
                                                                                                                  {'str': "'SAR'"}],
                                                                                                                 [{'str': "'ProcessLevel'"},
                                                                                                                  {'str': "'1.1'"}],
                                                                                                                 [{'str': "'ProcessFacility'"},
                                                                                                                  {'str': "'spacecraft "
                                                                                                                          'control '
                                                                                                                          'mission '
                                                                                                                          'operation '
                                                                                                                          "system'"}],
                                                                                                                 [{'str': "'ObservationDate'"},
                                                                                                                  {'str': "'2018-07-26'"}]]}}}]]},
                                                      'attrs': {'dict:dict': []}}}},
 'open_summary/typical': {'returned': {'Group': {'path': {'str': "'summary'"},
                                                 'url': {'NoneType': 'None'},
                                                 'data': {'dict:dict': [[{'str': "'scene_specification'"},
                                                                         {'Group': {'path': {'str': "'summary/scene_specification'"},
                                                                                    'url': {'NoneType': 'None'},
                                                                                    'data': {'dict:dict': []},
                                                                                    'attrs': {'dict:dict': [[{'str': "'mission_name'"},
                                                                                                             {'str': "'ALOS2'"}],
                                                                                                            [{'str': "'orbit_accumulation'"},
                                                                                                             {'int': '22533'}],
                                                                                                            [{'str': "'scene_frame'"},
                                                                                                             {'int': '3200'}],
                                                                                                            [{'str': "'date'"},
                                                                                                             {'str': "'2018-07-26'"}],
                                                                                                            [{'str': "'SceneShift'"},
                                                                                                             {'int': '1'}]]}}}],
                                                                        [{'str': "'product_specification'"},
                                                                         {'Group': {'path': {'str': "'summary/product_specification'"},
                                                                                    'url': {'NoneType': 'None'},
                                                                                    'data': {'dict:dict': []},
                                                                                    'attrs': {'dict:dict': [[{'str': "'observation_mode'"},
                                                                                                             {'str': "'ScanSAR "
                                                                                                                     'nominal '
                                                                                                                     '28MHz '
                                                                                                                     'mode '
                                                                                                                     'dual '
                                                                                                                     "polarization'"}],
                                                                                                            [{'str': "'observation_direction'"},
                                                                                                             {'str': "'right "
                                                                                                                     "looking'"}],
                                                                                                            [{'str': "'processing_level'"},
                                                                                                             {'str': "'level "
                                                                                                                     "1.1'"}],
                                                                                                            [{'str': "'processing_option'"},
                                                                                                             {'str': "'not "
                                                                                                                     "specified'"}],
                                                                                                            [{'str': "'map_projection'"},
                                                                                                             {'str': "'not "
                                                                                                                     "specified'"}],
                                                                                                            [{'str': "'orbit_direction'"},
                                                                                                             {'str': "'descending'"}],
                                                                                                            [{'str': "'ResamplingMethod'"},
                                                                                                             {'str': "'nearest-neighbor'"}],
                                                                                                            [{'str': "'UTM_ZoneNo'"},
                                                                                                             {'int': '0'}],
                                                                                                            [{'str': "'PSLatitude'"},
                                                                                                             {'float': '0.0'}],
                                                                                                            [{'str': "'MapDirection'"},
                                                                                                             {'str': "'MapNorth'"}],
                                                                                                            [{'str': "'OrbitDataPrecision'"},
                                                                                                             {'str': "'Precision'"}],
                                                                                                            [{'str': "'AttitudeDataPrecision'"},
                                                                                                             {'str': "'Onboard'"}]]}}}],
                                                                        [{'str': "'image_information'"},
                                                                         {'Group': {'path': {'str': "'summary/image_information'"},
                                                                                    'url': {'NoneType': 'None'},
                                                                                    'data': {'dict:dict': []},
                                                                                    'attrs': {'dict:dict': [[{'str': "'SceneCenterDateTime'"},
                                                                                                             {'str': "'2018-07-26T13:09:44.204'"}],
                                                                                                            [{'str': "'ImageSceneCenterLatitude'"},
                                                                                                             {'float': '34.5'}],
                                                                                                            [{'str': "'SceneStartDateTime'"},
                                                                                                             {'str': "'2018-07-26T13:09:18.204'"}],
                                                                                                            [{'str': "'ImageSceneCenterLongitude'"},
                                                                                                             {'float': '-135.0'}]]}}}],
                                                                        [{'str': "'label_information'"},
                                                                         {'Group': {'path': {'str': "'summary/label_information'"},
                                                                                    'url': {'NoneType': 'None'},
                                                                                    'data': {'dict:dict': []},
                                                                                    'attrs': {'dict:dict': [[{'str': "'Satellite'"},
                                                                                                             {'str': "'ALOS2'"}],
                                                                                                            [{'str': "'Sensor'"},
                                                                                                             {'str': "'SAR'"}],
                                                                                                            [{'str': "'ProcessLevel'"},
                                                                                                             {'str': "'1.1'"}],
                                                                                                            [{'str': "'ProcessFacility'"},
                                                                                                             {'str': "'spacecraft "
                                                                                                                     'control '
                                                                                                                     'mission '
                                                                                                                     'operation '
                                                                                                                     "system'"}],
                                                                                                            [{'str': "'ObservationDate'"},
                                                                                                             {'str': "'2018-07-26'"}]]}}}]]},
                                                 'attrs': {'dict:dict': []}}}},
 'open_summary/transform_scene_spec/empty': {'returned': {'Group': {'path': {'str': "'summary'"},
                                                                    'url': {'NoneType': 'None'},
                                                                    'data': {'dict:dict': []},
                                                                    'attrs': {'dict:dict': []}}}},
 'open_summary/transform_scene_spec/shift_only': {'returned': {'Group': {'path': {'str': "'summary'"},
                                                                         'url': {'NoneType': 'None'},
                                                                         'data': {'dict:dict': [[{'str': "'scene_specification'"},
                                                                                                 {'Group': {'path': {'str': "'summary/scene_specification'"},
                                                                                                            'url': {'NoneType': 'None'},
                                                                                                            'data': {'dict:dict': []},
                                                                                                            'attrs': {'dict:dict': [[{'str': "'SceneShift'"},
                                                                                                                                     {'int': '0'}]]}}}]]},
                                                                         'attrs': {'dict:dict': []}}}},
 'open_summary/transform_scene_spec/negative_shift': {'returned': {'Group': {'path': {'str': "'summary'"},
                                                                             'url': {'NoneType': 'None'},
                                                                             'data': {'dict:dict': [[{'str': "'scene_specification'"},
                                                                                                     {'Group': {'path': {'str': "'summary/scene_specification'"},
                                                                                                                'url': {'NoneType': 'None'},
                                                                                                                'data': {'dict:dict': []},
                                                                                                                'attrs': {'dict:dict': [[{'str': "'SceneShift'"},
                                                                                                                                         {'int': '-2'}]]}}}]]},
                                                                             'attrs': {'dict:dict': []}}}},
 'open_summary/transform_scene_spec/padded_shift': {'returned': {'Group': {'path': {'str': "'summary'"},
                                                                           'url': {'NoneType': 'None'},
                                                                           'data': {'dict:dict': [[{'str': "'scene_specification'"},
                                                                                                   {'Group': {'path': {'str': "'summary/scene_specification'"},
                                                                                                              'url': {'NoneType': 'None'},
                                                                                                              'data': {'dict:dict': []},
                                                                                                              'attrs': {'dict:dict': [[{'str': "'SceneShift'"},
                                                                                                                                       {'int': '3'}]]}}}]]},
                                                                           'attrs': {'dict:dict': []}}}},
 'open_summary/transform_scene_spec/id_only': {'returned': {'Group': {'path': {'str': "'summary'"},
                                                                      'url': {'NoneType': 'None'},
                                                                      'data': {'dict:dict': [[{'str': "'scene_specification'"},
                                                                                              {'Group': {'path': {'str': "'summary/scene_specification'"},
                                                                                                         'url': {'NoneType': 'None'},
                                                                                                         'data': {'dict:dict': []},
                                                                                                         'attrs': {'dict:dict': [[{'str': "'mission_name'"},
                                                                                                                                  {'str': "'ALOS2'"}],
                                                                                                                                 [{'str': "'orbit_accumulation'"},
                                                                                                                                  {'int': '22533'}],
                                                                                                                                 [{'str': "'scene_frame'"},
                                                                                                                                  {'int': '3200'}],
                                                                                                                                 [{'str': "'date'"},
                                                                                                                                  {'str': "'2018-07-26'"}]]}}}]]},
                                                                      'attrs': {'dict:dict': []}}}},
 'open_summary/transform_scene_spec/id_and_shift': {'returned': {'Group': {'path': {'str': "'summary'"},
                                                                           'url': {'NoneType': 'None'},
                                                                           'data': {'dict:dict': [[{'str': "'scene_specification'"},
                                                                                                   {'Group': {'path': {'str': "'summary/scene_specification'"},
                                                                                                              'url': {'NoneType': 'None'},
                                                                                                              'data': {'dict:dict': []},
                                                                                                              'attrs': {'dict:dict': [[{'str': "'mission_name'"},
                                                                                                                                       {'str': "'ALOS2'"}],
                                                                                                                                      [{'str': "'orbit_accumulation'"},
                                                                                                                                       {'int': '22533'}],
                                                                                                                                      [{'str': "'scene_frame'"},
                                                                                                                                       {'int': '3200'}],
                                                                                                                                      [{'str': "'date'"},
                                                                                                                                       {'str': "'2018-07-26'"}],
                                                                                                                                      [{'str': "'SceneShift'"},
                                                                                                                                       {'int': '1'}]]}}}]]},
                                                                           'attrs': {'dict:dict': []}}}},
 'open_summary/transform_scene_spec/shift_and_id': {'returned': {'Group': {'path': {'str': "'summary'"},
                                                                           'url': {'NoneType': 'None'},
                                                                           'data': {'dict:dict': [[{'str': "'scene_specification'"},
                                                                                                   {'Group': {'path': {'str': "'summary/scene_specification'"},
                                                                                                              'url': {'NoneType': 'None'},
                                                                                                              'data': {'dict:dict': []},
                                                                                                              'attrs': {'dict:dict': [[{'str': "'SceneShift'"},
                                                                                                                                       {'int': '1'}],
                                                                                                                                      [{'str': "'mission_name'"},
                                                                                                                                       {'str': "'ALOS2'"}],
                                                                                                                                      [{'str': "'orbit_accumulation'"},
                                                                                                                                       {'int': '22533'}],
                                                                                                                                      [{'str': "'scene_frame'"},
                                                                                                                                       {'int': '3200'}],
                                                                                                                                      [{'str': "'date'"},
                                                                                                                                       {'str': "'2018-07-26'"}]]}}}]]},
                                                                           'attrs': {'dict:dict': []}}}},
 'open_summary/transform_scene_spec/leading_zeros': {'returned': {'Group': {'path': {'str': "'summary'"},
                                                                            'url': {'NoneType': 'None'},
                                                                            'data': {'dict:dict': [[{'str': "'scene_specification'"},
                                                                                                    {'Group': {'path': {'str': "'summary/scene_specification'"},
                                                                                                               'url': {'NoneType': 'None'},
                                                                                                               'data': {'dict:dict': []},
                                                                                                               'attrs': {'dict:dict': [[{'str': "'mission_name'"},
                                                                                                                                        {'str': "'ALOS2'"}],
                                                                                                                                       [{'str': "'orbit_accumulation'"},
                                                                                                                                        {'int': '1'}],
                                                                                                                                       [{'str': "'scene_frame'"},
                                                                                                                                        {'int': '7'}],
                                                                                                                                       [{'str': "'date'"},
                                                                                                                                        {'str': "'2000-01-01'"}]]}}}]]},
                                                                            'attrs': {'dict:dict': []}}}},
 'open_summary/transform_scene_spec/leap_day': {'returned': {'Group': {'path': {'str': "'summary'"},
                                                                       'url': {'NoneType': 'None'},
                                                                       'data': {'dict:dict': [[{'str': "'scene_specification'"},
                                                                                               {'Group': {'path': {'str': "'summary/scene_specification'"},
                                                                                                          'url': {'NoneType': 'None'},
                                                                                                          'data': {'dict:dict': []},
                                                                                                          'attrs': {'dict:dict': [[{'str': "'mission_name'"},
                                                                                                                                   {'str': "'ALOS2'"}],
                                                                                                                                  [{'str': "'orbit_accumulation'"},
                                                                                                                                   {'int': '12345'}],
                                                                                                                                  [{'str': "'scene_frame'"},
                                                                                                                                   {'int': '6789'}],
                                                                                                                                  [{'str': "'date'"},
                                                                                                                                   {'str': "'2020-02-29'"}]]}}}]]},
                                                                       'attrs': {'dict:dict': []}}}},
 'open_summary/transform_scene_spec/last_century': {'returned': {'Group': {'path': {'str': "'summary'"},
                                                                           'url': {'NoneType': 'None'},
                                                                           'data': {'dict:dict': [[{'str': "'scene_specification'"},
                                                                                                   {'Group': {'path': {'str': "'summary/scene_specification'"},
                                                                                                              'url': {'NoneType': 'None'},
                                                                                                              'data': {'dict:dict': []},
                                                                                                              'attrs': {'dict:dict': [[{'str': "'mission_name'"},
                                                                                                                                       {'str': "'ALOS2'"}],
                                                                                                                                      [{'str': "'orbit_accumulation'"},
                                                                                                                                       {'int': '12345'}],
                                                                                                                                      [{'str': "'scene_frame'"},
                                                                                                                                       {'int': '6789'}],
                                                                                                                                      [{'str': "'date'"},
                                                                                                                                       {'str': "'1999-12-31'"}]]}}}]]},
                                                                           'attrs': {'dict:dict': []}}}},
 'open_summary/transform_scene_spec/unknown_keys': {'returned': {'Group': {'path': {'str': "'summary'"},
                                                                           'url': {'NoneType': 'None'},
                                                                           'data': {'dict:dict': [[{'str': "'scene_specification'"},
                                                                                                   {'Group': {'path': {'str': "'summary/scene_specification'"},
                                                                                                              'url': {'NoneType': 'None'},
                                                                                                              'data': {'dict:dict': []},
                                                                                                              'attrs': {'dict:dict': [[{'str': "'Other'"},
                                                                                                                                       {'str': "'x'"}],
                                                                                                                                      [{'str': "'mission_name'"},
                                                                                                                                       {'str': "'ALOS2'"}],
                                                                                                                                      [{'str': "'orbit_accumulation'"},
                                                                                                                                       {'int': '22533'}],
                                                                                                                                      [{'str': "'scene_frame'"},
                                                                                                                                       {'int': '3200'}],
                                                                                                                                      [{'str': "'date'"},
                                                                                                                                       {'str': "'kept?'"}]]}}}]]},
                                                                           'attrs': {'dict:dict': []}}}},
 'open_summary/transform_scene_spec/key_collision_after': {'returned': {'Group': {'path': {'str': "'summary'"},
                                                                                  'url': {'NoneType': 'None'},
                                                                                  'data': {'dict:dict': [[{'str': "'scene_specification'"},
                                                                                                          {'Group': {'path': {'str': "'summary/scene_specification'"},
                                                                                                                     'url': {'NoneType': 'None'},
                                                                                                                     'data': {'dict:dict': []},
                                                                                                                     'attrs': {'dict:dict': [[{'str': "'mission_name'"},
                                                                                                                                              {'str': "'ALOS2'"}],
                                                                                                                                             [{'str': "'orbit_accumulation'"},
                                                                                                                                              {'int': '22533'}],
                                                                                                                                             [{'str': "'scene_frame'"},
                                                                                                                                              {'str': "'later'"}],
                                                                                                                                             [{'str': "'date'"},
                                                                                                                                              {'str': "'2018-07-26'"}]]}}}]]},
                                                                                  'attrs': {'dict:dict': []}}}},
 'open_summary/transform_scene_spec/key_collision_before': {'returned': {'Group': {'path': {'str': "'summary'"},
                                                                                   'url': {'NoneType': 'None'},
                                                                                   'data': {'dict:dict': [[{'str': "'scene_specification'"},
                                                                                                           {'Group': {'path': {'str': "'summary/scene_specification'"},
                                                                                                                      'url': {'NoneType': 'None'},
                                                                                                                      'data': {'dict:dict': []},
                                                                                                                      'attrs': {'dict:dict': [[{'str': "'scene_frame'"},
                                                                                                                                               {'int': '3200'}],
                                                                                                                                              [{'str': "'mission_name'"},
                                                                                                                                               {'str': "'ALOS2'"}],
                                                                                                                                              [{'str': "'orbit_accumulation'"},
                                                                                                                                               {'int': '22533'}],
                                                                                                                                              [{'str': "'date'"},
                                                                                                                                               {'str': "'2018-07-26'"}]]}}}]]},
                                                                                   'attrs': {'dict:dict': []}}}},
 'open_summary/transform_scene_spec/bad_shift': {'raised': {'type': 'builtins.ValueError',
                                                            'args': {'tuple': [{'str': '"invalid '
                                                                                       'literal '
                                                                                       'for int() '
                                                                                       'with base '
                                                                                       '10: '
                                                                                       '\'1.0\'"'}]},
                                                            'str': 'invalid literal for int() with '
                                                                   "base 10: '1.0'",
                                                            'cause': None,
                                                            'context': None,
                                                            'suppress_context': False}},
 'open_summary/transform_scene_spec/empty_shift': {'raised': {'type': 'builtins.ValueError',
                                                              'args': {'tuple': [{'str': '"invalid '
                                                                                         'literal '
                                                                                         'for '
                                                                                         'int() '
                                                                                         'with '
                                                                                         'base 10: '
                                                                                         '\'\'"'}]},
                                                              'str': 'invalid literal for int() '
                                                                     "with base 10: ''",
                                                              'cause': None,
                                                              'context': None,
                                                              'suppress_context': False}},
 'open_summary/transform_scene_spec/short_id': {'raised': {'type': 'builtins.ValueError',
                                                           'args': {'tuple': [{'str': "'invalid "
                                                                                      'scene id: '
                                                                                      "ALOS222533320-180726'"}]},
                                                           'str': 'invalid scene id: '
                                                                  'ALOS222533320-180726',
                                                           'cause': None,
                                                           'context': None,
                                                           'suppress_context': False}},
 'open_summary/transform_scene_spec/trailing_id': {'raised': {'type': 'builtins.ValueError',
                                                              'args': {'tuple': [{'str': "'invalid "
                                                                                         'scene '
                                                                                         'id: '
                                                                                         "ALOS2225333200-180726x'"}]},
                                                              'str': 'invalid scene id: '
                                                                     'ALOS2225333200-180726x',
                                                              'cause': None,
                                                              'context': None,
                                                              'suppress_context': False}},
 'open_summary/transform_scene_spec/lowercase_id': {'raised': {'type': 'builtins.ValueError',
                                                               'args': {'tuple': [{'str': "'invalid "
                                                                                          'scene '
                                                                                          'id: '
                                                                                          "alos2225333200-180726'"}]},
                                                               'str': 'invalid scene id: '
                                                                      'alos2225333200-180726',
                                                               'cause': None,
                                                               'context': None,
                                                               'suppress_context': False}},
 'open_summary/transform_scene_spec/impossible_date': {'raised': {'type': 'builtins.ValueError',
                                                                  'args': {'tuple': [{'str': "'invalid "
                                                                                             'scene '
                                                                                             'id: '
                                                                                             "ALOS2225333200-180732'"}]},
                                                                  'str': 'invalid scene id: '
                                                                         'ALOS2225333200-180732',
                                                                  'cause': {'type': 'builtins.ValueError',
                                                                            'args': {'tuple': [{'str': "'unconverted "
                                                                                                       'data '
                                                                                                       'remains: '
                                                                                                       "2'"}]},
                                                                            'str': 'unconverted '
                                                                                   'data remains: '
                                                                                   '2',
                                                                            'cause': None,
                                                                            'context': None,
                                                                            'suppress_context': False},
                                                                  'context': {'type': 'builtins.ValueError',
                                                                              'args': {'tuple': [{'str': "'unconverted "
                                                                                                         'data '
                                                                                                         'remains: '
                                                                                                         "2'"}]},
                                                                              'str': 'unconverted '
                                                                                     'data '
                                                                                     'remains: 2',
                                                                              'cause': None,
                                                                              'context': None,
                                                                              'suppress_context': False},
                                                                  'suppress_context': True}},
 'open_summary/transform_scene_spec/impossible_month': {'raised': {'type': 'builtins.ValueError',
                                                                   'args': {'tuple': [{'str': "'invalid "
                                                                                              'scene '
                                                                                              'id: '
                                                                                              "ALOS2225333200-181301'"}]},
                                                                   'str': 'invalid scene id: '
                                                                          'ALOS2225333200-181301',
                                                                   'cause': {'type': 'builtins.ValueError',
                                                                             'args': {'tuple': [{'str': "'unconverted "
                                                                                                        'data '
                                                                                                        'remains: '
                                                                                                        "1'"}]},
                                                                             'str': 'unconverted '
                                                                                    'data remains: '
                                                                                    '1',
                                                                             'cause': None,
                                                                             'context': None,
                                                                             'suppress_context': False},
                                                                   'context': {'type': 'builtins.ValueError',
                                                                               'args': {'tuple': [{'str': "'unconverted "
                                                                                                          'data '
                                                                                                          'remains: '
                                                                                                          "1'"}]},
                                                                               'str': 'unconverted '
                                                                                      'data '
                                                                                      'remains: 1',
                                                                               'cause': None,
                                                                               'context': None,
                                                                               'suppress_context': False},
                                                                   'suppress_context': True}},
 'open_summary/transform_scene_spec/no_leap_day': {'raised': {'type': 'builtins.ValueError',
                                                              'args': {'tuple': [{'str': "'invalid "
                                                                                         'scene '
                                                                                         'id: '
                                                                                         "ALOS2123456789-190229'"}]},
                                                              'str': 'invalid scene id: '
                                                                     'ALOS2123456789-190229',
                                                              'cause': {'type': 'builtins.ValueError',
                                                                        'args': {'tuple': [{'str': "'day "
                                                                                                   'is '
                                                                                                   'out '
                                                                                                   'of '
                                                                                                   'range '
                                                                                                   'for '
                                                                                                   "month'"}]},
                                                                        'str': 'day is out of '
                                                                               'range for month',
                                                                        'cause': None,
                                                                        'context': None,
                                                                        'suppress_context': False},
                                                              'context': {'type': 'builtins.ValueError',
                                                                          'args': {'tuple': [{'str': "'day "
                                                                                                     'is '
                                                                                                     'out '
                                                                                                     'of '
                                                                                                     'range '
                                                                                                     'for '
                                                                                                     "month'"}]},
                                                                          'str': 'day is out of '
                                                                                 'range for month',
                                                                          'cause': None,
                                                                          'context': None,
                                                                          'suppress_context': False},
                                                              'suppress_context': True}},
 'open_summary/transform_scene_spec/bad_id_then_bad_shift': {'raised': {'type': 'builtins.ValueError',
                                                                        'args': {'tuple': [{'str': "'invalid "
                                                                                                   'scene '
                                                                                                   'id: '
                                                                                                   "x'"}]},
                                                                        'str': 'invalid scene id: '
                                                                               'x',
                                                                        'cause': None,
                                                                        'context': None,
                                                                        'suppress_context': False}},
 'open_summary/transform_scene_spec/bad_shift_then_bad_id': {'raised': {'type': 'builtins.ValueError',
                                                                        'args': {'tuple': [{'str': '"invalid '
                                                                                                   'literal '
                                                                                                   'for '
                                                                                                   'int() '
                                                                                                   'with '
                                                                                                   'base '
                                                                                                   '10: '
                                                                                                   '\'y\'"'}]},
                                                                        'str': 'invalid literal '
                                                                               'for int() with '
                                                                               "base 10: 'y'",
                                                                        'cause': None,
                                                                        'context': None,
                                                                        'suppress_context': False}},
 'open_summary/transform_product_spec/empty': {'returned': {'Group': {'path': {'str': "'summary'"},
                                                                      'url': {'NoneType': 'None'},
                                                                      'data': {'dict:dict': []},
                                                                      'attrs': {'dict:dict': []}}}},
 'open_summary/transform_product_spec/id_only': {'returned': {'Group': {'path': {'str': "'summary'"},
                                                                        'url': {'NoneType': 'None'},
                                                                        'data': {'dict:dict': [[{'str': "'product_specification'"},
                                                                                                {'Group': {'path': {'str': "'summary/product_specification'"},
                                                                                                           'url': {'NoneType': 'None'},
                                                                                                           'data': {'dict:dict': []},
                                                                                                           'attrs': {'dict:dict': [[{'str': "'observation_mode'"},
                                                                                                                                    {'str': "'ScanSAR "
                                                                                                                                            'nominal '
                                                                                                                                            '28MHz '
                                                                                                                                            'mode '
                                                                                                                                            'dual '
                                                                                                                                            "polarization'"}],
                                                                                                                                   [{'str': "'observation_direction'"},
                                                                                                                                    {'str': "'right "
                                                                                                                                            "looking'"}],
                                                                                                                                   [{'str': "'processing_level'"},
                                                                                                                                    {'str': "'level "
                                                                                                                                            "1.1'"}],
                                                                                                                                   [{'str': "'processing_option'"},
                                                                                                                                    {'str': "'not "
                                                                                                                                            "specified'"}],
                                                                                                                                   [{'str': "'map_projection'"},
                                                                                                                                    {'str': "'not "
                                                                                                                                            "specified'"}],
                                                                                                                                   [{'str': "'orbit_direction'"},
                                                                                                                                    {'str': "'descending'"}]]}}}]]},
                                                                        'attrs': {'dict:dict': []}}}},
 'open_summary/transform_product_spec/id_variants_1': {'returned': {'Group': {'path': {'str': "'summary'"},
                                                                              'url': {'NoneType': 'None'},
                                                                              'data': {'dict:dict': [[{'str': "'product_specification'"},
                                                                                                      {'Group': {'path': {'str': "'summary/product_specification'"},
                                                                                                                 'url': {'NoneType': 'None'},
                                                                                                                 'data': {'dict:dict': []},
                                                                                                                 'attrs': {'dict:dict': [[{'str': "'observation_mode'"},
                                                                                                                                          {'str': "'spotlight "
                                                                                                                                                  "mode'"}],
                                                                                                                                         [{'str': "'observation_direction'"},
                                                                                                                                          {'str': "'left "
                                                                                                                                                  "looking'"}],
                                                                                                                                         [{'str': "'processing_level'"},
                                                                                                                                          {'str': "'level "
                                                                                                                                                  "1.0'"}],
                                                                                                                                         [{'str': "'processing_option'"},
                                                                                                                                          {'str': "'geo-code'"}],
                                                                                                                                         [{'str': "'map_projection'"},
                                                                                                                                          {'str': "'UTM'"}],
                                                                                                                                         [{'str': "'orbit_direction'"},
                                                                                                                                          {'str': "'ascending'"}]]}}}]]},
                                                                              'attrs': {'dict:dict': []}}}},
 'open_summary/transform_product_spec/id_variants_2': {'returned': {'Group': {'path': {'str': "'summary'"},
                                                                              'url': {'NoneType': 'None'},
                                                                              'data': {'dict:dict': [[{'str': "'product_specification'"},
                                                                                                      {'Group': {'path': {'str': "'summary/product_specification'"},
                                                                                                                 'url': {'NoneType': 'None'},
                                                                                                                 'data': {'dict:dict': []},
                                                                                                                 'attrs': {'dict:dict': [[{'str': "'observation_mode'"},
                                                                                                                                          {'str': "'fine "
                                                                                                                                                  'mode '
                                                                                                                                                  'full '
                                                                                                                                                  '(quad.) '
                                                                                                                                                  "polarimetry'"}],
                                                                                                                                         [{'str': "'observation_direction'"},
                                                                                                                                          {'str': "'right "
                                                                                                                                                  "looking'"}],
                                                                                                                                         [{'str': "'processing_level'"},
                                                                                                                                          {'str': "'level "
                                                                                                                                                  "1.5'"}],
                                                                                                                                         [{'str': "'processing_option'"},
                                                                                                                                          {'str': "'geo-reference'"}],
                                                                                                                                         [{'str': "'map_projection'"},
                                                                                                                                          {'str': "'PS'"}],
                                                                                                                                         [{'str': "'orbit_direction'"},
                                                                                                                                          {'str': "'descending'"}]]}}}]]},
                                                                              'attrs': {'dict:dict': []}}}},
 'open_summary/transform_product_spec/id_variants_3': {'returned': {'Group': {'path': {'str': "'summary'"},
                                                                              'url': {'NoneType': 'None'},
                                                                              'data': {'dict:dict': [[{'str': "'product_specification'"},
                                                                                                      {'Group': {'path': {'str': "'summary/product_specification'"},
                                                                                                                 'url': {'NoneType': 'None'},
                                                                                                                 'data': {'dict:dict': []},
                                                                                                                 'attrs': {'dict:dict': [[{'str': "'observation_mode'"},
                                                                                                                                          {'str': "'ScanSAR "
                                                                                                                                                  'wide '
                                                                                                                                                  'mode '
                                                                                                                                                  'dual '
                                                                                                                                                  "polarization'"}],
                                                                                                                                         [{'str': "'observation_direction'"},
                                                                                                                                          {'str': "'left "
                                                                                                                                                  "looking'"}],
                                                                                                                                         [{'str': "'processing_level'"},
                                                                                                                                          {'str': "'level "
                                                                                                                                                  "3.1'"}],
                                                                                                                                         [{'str': "'processing_option'"},
                                                                                                                                          {'str': "'not "
                                                                                                                                                  "specified'"}],
                                                                                                                                         [{'str': "'map_projection'"},
                                                                                                                                          {'str': "'MER'"}],
                                                                                                                                         [{'str': "'orbit_direction'"},
                                                                                                                                          {'str': "'ascending'"}]]}}}]]},
                                                                              'attrs': {'dict:dict': []}}}},
 'open_summary/transform_product_spec/id_variants_4': {'returned': {'Group': {'path': {'str': "'summary'"},
                                                                              'url': {'NoneType': 'None'},
                                                                              'data': {'dict:dict': [[{'str': "'product_specification'"},
                                                                                                      {'Group': {'path': {'str': "'summary/product_specification'"},
                                                                                                                 'url': {'NoneType': 'None'},
                                                                                                                 'data': {'dict:dict': []},
                                                                                                                 'attrs': {'dict:dict': [[{'str': "'observation_mode'"},
                                                                                                                                          {'str': "'high-sensitive "
                                                                                                                                                  'mode '
                                                                                                                                                  'full '
                                                                                                                                                  '(quad.) '
                                                                                                                                                  "polarimetry'"}],
                                                                                                                                         [{'str': "'observation_direction'"},
                                                                                                                                          {'str': "'right "
                                                                                                                                                  "looking'"}],
                                                                                                                                         [{'str': "'processing_level'"},
                                                                                                                                          {'str': "'level "
                                                                                                                                                  "1.1'"}],
                                                                                                                                         [{'str': "'processing_option'"},
                                                                                                                                          {'str': "'not "
                                                                                                                                                  "specified'"}],
                                                                                                                                         [{'str': "'map_projection'"},
                                                                                                                                          {'str': "'LCC'"}],
                                                                                                                                         [{'str': "'orbit_direction'"},
                                                                                                                                          {'str': "'descending'"}]]}}}]]},
                                                                              'attrs': {'dict:dict': []}}}},
 'open_summary/transform_product_spec/resampling_nn': {'returned': {'Group': {'path': {'str': "'summary'"},
                                                                              'url': {'NoneType': 'None'},
                                                                              'data': {'dict:dict': [[{'str': "'product_specification'"},
                                                                                                      {'Group': {'path': {'str': "'summary/product_specification'"},
                                                                                                                 'url': {'NoneType': 'None'},
                                                                                                                 'data': {'dict:dict': []},
                                                                                                                 'attrs': {'dict:dict': [[{'str': "'ResamplingMethod'"},
                                                                                                                                          {'str': "'nearest-neighbor'"}]]}}}]]},
                                                                              'attrs': {'dict:dict': []}}}},
 'open_summary/transform_product_spec/resampling_bl': {'returned': {'Group': {'path': {'str': "'summary'"},
                                                                              'url': {'NoneType': 'None'},
                                                                              'data': {'dict:dict': [[{'str': "'product_specification'"},
                                                                                                      {'Group': {'path': {'str': "'summary/product_specification'"},
                                                                                                                 'url': {'NoneType': 'None'},
                                                                                                                 'data': {'dict:dict': []},
                                                                                                                 'attrs': {'dict:dict': [[{'str': "'ResamplingMethod'"},
                                                                                                                                          {'str': "'bilinear'"}]]}}}]]},
                                                                              'attrs': {'dict:dict': []}}}},
 'open_summary/transform_product_spec/resampling_cc': {'returned': {'Group': {'path': {'str': "'summary'"},
                                                                              'url': {'NoneType': 'None'},
                                                                              'data': {'dict:dict': [[{'str': "'product_specification'"},
                                                                                                      {'Group': {'path': {'str': "'summary/product_specification'"},
                                                                                                                 'url': {'NoneType': 'None'},
                                                                                                                 'data': {'dict:dict': []},
                                                                                                                 'attrs': {'dict:dict': [[{'str': "'ResamplingMethod'"},
                                                                                                                                          {'str': "'cubic "
                                                                                                                                                  "convolution'"}]]}}}]]},
                                                                              'attrs': {'dict:dict': []}}}},
 'open_summary/transform_product_spec/zone': {'returned': {'Group': {'path': {'str': "'summary'"},
                                                                     'url': {'NoneType': 'None'},
                                                                     'data': {'dict:dict': [[{'str': "'product_specification'"},
                                                                                             {'Group': {'path': {'str': "'summary/product_specification'"},
                                                                                                        'url': {'NoneType': 'None'},
                                                                                                        'data': {'dict:dict': []},
                                                                                                        'attrs': {'dict:dict': [[{'str': "'UTM_ZoneNo'"},
                                                                                                                                 {'int': '54'}]]}}}]]},
                                                                     'attrs': {'dict:dict': []}}}},
 'open_summary/transform_product_spec/passthroughs': {'returned': {'Group': {'path': {'str': "'summary'"},
                                                                             'url': {'NoneType': 'None'},
                                                                             'data': {'dict:dict': [[{'str': "'product_specification'"},
                                                                                                     {'Group': {'path': {'str': "'summary/product_specification'"},
                                                                                                                'url': {'NoneType': 'None'},
                                                                                                                'data': {'dict:dict': []},
                                                                                                                'attrs': {'dict:dict': [[{'str': "'MapDirection'"},
                                                                                                                                         {'str': "'MapNorth'"}],
                                                                                                                                        [{'str': "'OrbitDataPrecision'"},
                                                                                                                                         {'str': "'Precision'"}],
                                                                                                                                        [{'str': "'AttitudeDataPrecision'"},
                                                                                                                                         {'str': "'Onboard'"}]]}}}]]},
                                                                             'attrs': {'dict:dict': []}}}},
 'open_summary/transform_product_spec/defaults_to_float': {'returned': {'Group': {'path': {'str': "'summary'"},
                                                                                  'url': {'NoneType': 'None'},
                                                                                  'data': {'dict:dict': [[{'str': "'product_specification'"},
                                                                                                          {'Group': {'path': {'str': "'summary/product_specification'"},
                                                                                                                     'url': {'NoneType': 'None'},
                                                                                                                     'data': {'dict:dict': []},
                                                                                                                     'attrs': {'dict:dict': [[{'str': "'PixelSpacing'"},
                                                                                                                                              {'float': '2.5'}],
                                                                                                                                             [{'str': "'PSLatitude'"},
                                                                                                                                              {'float': '-1000.0'}],
                                                                                                                                             [{'str': "'Inf'"},
                                                                                                                                              {'float': 'inf'}],
                                                                                                                                             [{'str': "'Pad'"},
                                                                                                                                              {'float': '1.0'}]]}}}]]},
                                                                                  'attrs': {'dict:dict': []}}}},
 'open_summary/transform_product_spec/nan': {'returned': {'Group': {'path': {'str': "'summary'"},
                                                                    'url': {'NoneType': 'None'},
                                                                    'data': {'dict:dict': [[{'str': "'product_specification'"},
                                                                                            {'Group': {'path': {'str': "'summary/product_specification'"},
                                                                                                       'url': {'NoneType': 'None'},
                                                                                                       'data': {'dict:dict': []},
                                                                                                       'attrs': {'dict:dict': [[{'str': "'Nan'"},
                                                                                                                                {'float': 'nan'}]]}}}]]},
                                                                    'attrs': {'dict:dict': []}}}},
 'open_summary/transform_product_spec/typical': {'returned': {'Group': {'path': {'str': "'summary'"},
                                                                        'url': {'NoneType': 'None'},
                                                                        'data': {'dict:dict': [[{'str': "'product_specification'"},
                                                                                                {'Group': {'path': {'str': "'summary/product_specification'"},
                                                                                                           'url': {'NoneType': 'None'},
                                                                                                           'data': {'dict:dict': []},
                                                                                                           'attrs': {'dict:dict': [[{'str': "'observation_mode'"},
                                                                                                                                    {'str': "'ScanSAR "
                                                                                                                                            'nominal '
                                                                                                                                            '28MHz '
                                                                                                                                            'mode '
                                                                                                                                            'dual '
                                                                                                                                            "polarization'"}],
                                                                                                                                   [{'str': "'observation_direction'"},
                                                                                                                                    {'str': "'right "
                                                                                                                                            "looking'"}],
                                                                                                                                   [{'str': "'processing_level'"},
                                                                                                                                    {'str': "'level "
                                                                                                                                            "1.1'"}],
                                                                                                                                   [{'str': "'processing_option'"},
                                                                                                                                    {'str': "'not "
                                                                                                                                            "specified'"}],
                                                                                                                                   [{'str': "'map_projection'"},
                                                                                                                                    {'str': "'not "
                                                                                                                                            "specified'"}],
                                                                                                                                   [{'str': "'orbit_direction'"},
                                                                                                                                    {'str': "'descending'"}],
                                                                                                                                   [{'str': "'ResamplingMethod'"},
                                                                                                                                    {'str': "'nearest-neighbor'"}],
                                                                                                                                   [{'str': "'UTM_ZoneNo'"},
                                                                                                                                    {'int': '0'}],
                                                                                                                                   [{'str': "'PSLatitude'"},
                                                                                                                                    {'float': '0.0'}],
                                                                                                                                   [{'str': "'MapDirection'"},
                                                                                                                                    {'str': "'MapNorth'"}],
                                                                                                                                   [{'str': "'OrbitDataPrecision'"},
                                                                                                                                    {'str': "'Precision'"}],
                                                                                                                                   [{'str': "'AttitudeDataPrecision'"},
                                                                                                                                    {'str': "'Onboard'"}]]}}}]]},
                                                                        'attrs': {'dict:dict': []}}}},
 'open_summary/transform_product_spec/typical_reversed': {'returned': {'Group': {'path': {'str': "'summary'"},
                                                                                 'url': {'NoneType': 'None'},
                                                                                 'data': {'dict:dict': [[{'str': "'product_specification'"},
                                                                                                         {'Group': {'path': {'str': "'summary/product_specification'"},
                                                                                                                    'url': {'NoneType': 'None'},
                                                                                                                    'data': {'dict:dict': []},
                                                                                                                    'attrs': {'dict:dict': [[{'str': "'AttitudeDataPrecision'"},
                                                                                                                                             {'str': "'Onboard'"}],
                                                                                                                                            [{'str': "'OrbitDataPrecision'"},
                                                                                                                                             {'str': "'Precision'"}],
                                                                                                                                            [{'str': "'MapDirection'"},
                                                                                                                                             {'str': "'MapNorth'"}],
                                                                                                                                            [{'str': "'PSLatitude'"},
                                                                                                                                             {'float': '0.0'}],
                                                                                                                                            [{'str': "'UTM_ZoneNo'"},
                                                                                                                                             {'int': '0'}],
                                                                                                                                            [{'str': "'ResamplingMethod'"},
                                                                                                                                             {'str': "'nearest-neighbor'"}],
                                                                                                                                            [{'str': "'observation_mode'"},
                                                                                                                                             {'str': "'ScanSAR "
                                                                                                                                                     'nominal '
                                                                                                                                                     '28MHz '
                                                                                                                                                     'mode '
                                                                                                                                                     'dual '
                                                                                                                                                     "polarization'"}],
                                                                                                                                            [{'str': "'observation_direction'"},
                                                                                                                                             {'str': "'right "
                                                                                                                                                     "looking'"}],
                                                                                                                                            [{'str': "'processing_level'"},
                                                                                                                                             {'str': "'level "
                                                                                                                                                     "1.1'"}],
                                                                                                                                            [{'str': "'processing_option'"},
                                                                                                                                             {'str': "'not "
                                                                                                                                                     "specified'"}],
                                                                                                                                            [{'str': "'map_projection'"},
                                                                                                                                             {'str': "'not "
                                                                                                                                                     "specified'"}],
                                                                                                                                            [{'str': "'orbit_direction'"},
                                                                                                                                             {'str': "'descending'"}]]}}}]]},
                                                                                 'attrs': {'dict:dict': []}}}},
 'open_summary/transform_product_spec/key_collision': {'returned': {'Group': {'path': {'str': "'summary'"},
                                                                              'url': {'NoneType': 'None'},
                                                                              'data': {'dict:dict': [[{'str': "'product_specification'"},
                                                                                                      {'Group': {'path': {'str': "'summary/product_specification'"},
                                                                                                                 'url': {'NoneType': 'None'},
                                                                                                                 'data': {'dict:dict': []},
                                                                                                                 'attrs': {'dict:dict': [[{'str': "'observation_mode'"},
                                                                                                                                          {'str': "'ScanSAR "
                                                                                                                                                  'nominal '
                                                                                                                                                  '28MHz '
                                                                                                                                                  'mode '
                                                                                                                                                  'dual '
                                                                                                                                                  "polarization'"}],
                                                                                                                                         [{'str': "'observation_direction'"},
                                                                                                                                          {'str': "'right "
                                                                                                                                                  "looking'"}],
                                                                                                                                         [{'str': "'processing_level'"},
                                                                                                                                          {'str': "'level "
                                                                                                                                                  "1.1'"}],
                                                                                                                                         [{'str': "'processing_option'"},
                                                                                                                                          {'str': "'not "
                                                                                                                                                  "specified'"}],
                                                                                                                                         [{'str': "'map_projection'"},
                                                                                                                                          {'str': "'not "
                                                                                                                                                  "specified'"}],
                                                                                                                                         [{'str': "'orbit_direction'"},
                                                                                                                                          {'float': '2.0'}]]}}}]]},
                                                                              'attrs': {'dict:dict': []}}}},
 'open_summary/transform_product_spec/bad_id': {'raised': {'type': 'builtins.ValueError',
                                                           'args': {'tuple': [{'str': "'invalid "
                                                                                      'product id: '
                                                                                      "WWDR1.1__'"}]},
                                                           'str': 'invalid product id: WWDR1.1__',
                                                           'cause': None,
                                                           'context': None,
                                                           'suppress_context': False}},
 'open_summary/transform_product_spec/bad_id_mode': {'raised': {'type': 'builtins.ValueError',
                                                                'args': {'tuple': [{'str': "'invalid "
                                                                                           'product '
                                                                                           'id: '
                                                                                           "XXXR1.1__D'"}]},
                                                                'str': 'invalid product id: '
                                                                       'XXXR1.1__D',
                                                                'cause': {'type': 'builtins.ValueError',
                                                                          'args': {'tuple': [{'str': '"invalid '
                                                                                                     'code '
                                                                                                     '\'XXX\'"'}]},
                                                                          'str': 'invalid code '
                                                                                 "'XXX'",
                                                                          'cause': None,
                                                                          'context': None,
                                                                          'suppress_context': False},
                                                                'context': {'type': 'builtins.ValueError',
                                                                            'args': {'tuple': [{'str': '"invalid '
                                                                                                       'code '
                                                                                                       '\'XXX\'"'}]},
                                                                            'str': 'invalid code '
                                                                                   "'XXX'",
                                                                            'cause': None,
                                                                            'context': None,
                                                                            'suppress_context': False},
                                                                'suppress_context': True}},
 'open_summary/transform_product_spec/bad_id_level': {'raised': {'type': 'builtins.ValueError',
                                                                 'args': {'tuple': [{'str': "'invalid "
                                                                                            'product '
                                                                                            'id: '
                                                                                            "WWDR2.1__D'"}]},
                                                                 'str': 'invalid product id: '
                                                                        'WWDR2.1__D',
                                                                 'cause': None,
                                                                 'context': None,
                                                                 'suppress_context': False}},
 'open_summary/transform_product_spec/bad_id_trailing': {'raised': {'type': 'builtins.ValueError',
                                                                    'args': {'tuple': [{'str': "'invalid "
                                                                                               'product '
                                                                                               'id: '
                                                                                               "WWDR1.1__DD'"}]},
                                                                    'str': 'invalid product id: '
                                                                           'WWDR1.1__DD',
                                                                    'cause': None,
                                                                    'context': None,
                                                                    'suppress_context': False}},
 'open_summary/transform_product_spec/bad_resampling': {'raised': {'type': 'builtins.ValueError',
                                                                   'args': {'tuple': [{'str': '"invalid '
                                                                                              'code '
                                                                                              '\'XX\'"'}]},
                                                                   'str': "invalid code 'XX'",
                                                                   'cause': None,
                                                                   'context': None,
                                                                   'suppress_context': False}},
 'open_summary/transform_product_spec/lowercase_resampling': {'raised': {'type': 'builtins.ValueError',
                                                                         'args': {'tuple': [{'str': '"invalid '
                                                                                                    'code '
                                                                                                    '\'nn\'"'}]},
                                                                         'str': "invalid code 'nn'",
                                                                         'cause': None,
                                                                         'context': None,
                                                                         'suppress_context': False}},
 'open_summary/transform_product_spec/empty_resampling': {'raised': {'type': 'builtins.ValueError',
                                                                     'args': {'tuple': [{'str': '"invalid '
                                                                                                'code '
                                                                                                '\'\'"'}]},
                                                                     'str': "invalid code ''",
                                                                     'cause': None,
                                                                     'context': None,
                                                                     'suppress_context': False}},
 'open_summary/transform_product_spec/bad_zone': {'raised': {'type': 'builtins.ValueError',
                                                             'args': {'tuple': [{'str': '"invalid '
                                                                                        'literal '
                                                                                        'for int() '
                                                                                        'with base '
                                                                                        '10: '
                                                                                        '\'54.0\'"'}]},
                                                             'str': 'invalid literal for int() '
                                                                    "with base 10: '54.0'",
                                                             'cause': None,
                                                             'context': None,
                                                             'suppress_context': False}},
 'open_summary/transform_product_spec/bad_float': {'raised': {'type': 'builtins.ValueError',
                                                              'args': {'tuple': [{'str': '"could '
                                                                                         'not '
                                                                                         'convert '
                                                                                         'string '
                                                                                         'to '
                                                                                         'float: '
                                                                                         '\'two\'"'}]},
                                                              'str': 'could not convert string to '
                                                                     "float: 'two'",
                                                              'cause': None,
                                                              'context': None,
                                                              'suppress_context': False}},
 'open_summary/transform_product_spec/bad_float_then_bad_id': {'raised': {'type': 'builtins.ValueError',
                                                                          'args': {'tuple': [{'str': '"could '
                                                                                                     'not '
                                                                                                     'convert '
                                                                                                     'string '
                                                                                                     'to '
                                                                                                     'float: '
                                                                                                     '\'two\'"'}]},
                                                                          'str': 'could not '
                                                                                 'convert string '
                                                                                 "to float: 'two'",
                                                                          'cause': None,
                                                                          'context': None,
                                                                          'suppress_context': False}},
 'open_summary/transform_product_spec/bad_id_then_bad_float': {'raised': {'type': 'builtins.ValueError',
                                                                          'args': {'tuple': [{'str': "'invalid "
                                                                                                     'product '
                                                                                                     'id: '
                                                                                                     "x'"}]},
                                                                          'str': 'invalid product '
                                                                                 'id: x',
                                                                          'cause': None,
                                                                          'context': None,
                                                                          'suppress_context': False}},
 'open_summary/transform_image_info/empty': {'returned': {'Group': {'path': {'str': "'summary'"},
                                                                    'url': {'NoneType': 'None'},
                                                                    'data': {'dict:dict': []},
                                                                    'attrs': {'dict:dict': []}}}},
 'open_summary/transform_image_info/float': {'returned': {'Group': {'path': {'str': "'summary'"},
                                                                    'url': {'NoneType': 'None'},
                                                                    'data': {'dict:dict': [[{'str': "'image_information'"},
                                                                                            {'Group': {'path': {'str': "'summary/image_information'"},
                                                                                                       'url': {'NoneType': 'None'},
                                                                                                       'data': {'dict:dict': []},
                                                                                                       'attrs': {'dict:dict': [[{'str': "'OffNadirAngle'"},
                                                                                                                                {'float': '21.3'}]]}}}]]},
                                                                    'attrs': {'dict:dict': []}}}},
 'open_summary/transform_image_info/datetime': {'returned': {'Group': {'path': {'str': "'summary'"},
                                                                       'url': {'NoneType': 'None'},
                                                                       'data': {'dict:dict': [[{'str': "'image_information'"},
                                                                                               {'Group': {'path': {'str': "'summary/image_information'"},
                                                                                                          'url': {'NoneType': 'None'},
                                                                                                          'data': {'dict:dict': []},
                                                                                                          'attrs': {'dict:dict': [[{'str': "'SceneCenterDateTime'"},
                                                                                                                                   {'str': "'2018-07-26T13:09:44.204'"}]]}}}]]},
                                                                       'attrs': {'dict:dict': []}}}},
 'open_summary/transform_image_info/several_datetimes': {'returned': {'Group': {'path': {'str': "'summary'"},
                                                                                'url': {'NoneType': 'None'},
                                                                                'data': {'dict:dict': [[{'str': "'image_information'"},
                                                                                                        {'Group': {'path': {'str': "'summary/image_information'"},
                                                                                                                   'url': {'NoneType': 'None'},
                                                                                                                   'data': {'dict:dict': []},
                                                                                                                   'attrs': {'dict:dict': [[{'str': "'SceneCenterDateTime'"},
                                                                                                                                            {'str': "'2018-07-26T13:09:44.204'"}],
                                                                                                                                           [{'str': "'SceneStartDateTime'"},
                                                                                                                                            {'str': "'2018-07-26T13:09:18.204'"}],
                                                                                                                                           [{'str': "'SceneEndDateTime'"},
                                                                                                                                            {'str': "'2018-07-26T13:10:10.204'"}]]}}}]]},
                                                                                'attrs': {'dict:dict': []}}}},
 'open_summary/transform_image_info/mixed': {'returned': {'Group': {'path': {'str': "'summary'"},
                                                                    'url': {'NoneType': 'None'},
                                                                    'data': {'dict:dict': [[{'str': "'image_information'"},
                                                                                            {'Group': {'path': {'str': "'summary/image_information'"},
                                                                                                       'url': {'NoneType': 'None'},
                                                                                                       'data': {'dict:dict': []},
                                                                                                       'attrs': {'dict:dict': [[{'str': "'SceneCenterDateTime'"},
                                                                                                                                {'str': "'2018-07-26T13:09:44.204'"}],
                                                                                                                               [{'str': "'ImageSceneCenterLatitude'"},
                                                                                                                                {'float': '34.5'}],
                                                                                                                               [{'str': "'SceneStartDateTime'"},
                                                                                                                                {'str': "'2018-07-26T13:09:18.204'"}],
                                                                                                                               [{'str': "'ImageSceneCenterLongitude'"},
                                                                                                                                {'float': '-135.0'}]]}}}]]},
                                                                    'attrs': {'dict:dict': []}}}},
 'open_summary/transform_image_info/datetime_in_the_middle_of_the_key': {'returned': {'Group': {'path': {'str': "'summary'"},
                                                                                                'url': {'NoneType': 'None'},
                                                                                                'data': {'dict:dict': [[{'str': "'image_information'"},
                                                                                                                        {'Group': {'path': {'str': "'summary/image_information'"},
                                                                                                                                   'url': {'NoneType': 'None'},
                                                                                                                                   'data': {'dict:dict': []},
                                                                                                                                   'attrs': {'dict:dict': [[{'str': "'xDateTimeX'"},
                                                                                                                                                            {'str': "'2018-07-26T1'"}]]}}}]]},
                                                                                                'attrs': {'dict:dict': []}}}},
 'open_summary/transform_image_info/key_is_datetime': {'returned': {'Group': {'path': {'str': "'summary'"},
                                                                              'url': {'NoneType': 'None'},
                                                                              'data': {'dict:dict': [[{'str': "'image_information'"},
                                                                                                      {'Group': {'path': {'str': "'summary/image_information'"},
                                                                                                                 'url': {'NoneType': 'None'},
                                                                                                                 'data': {'dict:dict': []},
                                                                                                                 'attrs': {'dict:dict': [[{'str': "'DateTime'"},
                                                                                                                                          {'str': "'2018-07-26T13:09'"}]]}}}]]},
                                                                              'attrs': {'dict:dict': []}}}},
 'open_summary/transform_image_info/lowercase_datetime_key_is_float': {'returned': {'Group': {'path': {'str': "'summary'"},
                                                                                              'url': {'NoneType': 'None'},
                                                                                              'data': {'dict:dict': [[{'str': "'image_information'"},
                                                                                                                      {'Group': {'path': {'str': "'summary/image_information'"},
                                                                                                                                 'url': {'NoneType': 'None'},
                                                                                                                                 'data': {'dict:dict': []},
                                                                                                                                 'attrs': {'dict:dict': [[{'str': "'datetime'"},
                                                                                                                                                          {'float': '1.0'}]]}}}]]},
                                                                                              'attrs': {'dict:dict': []}}}},
 'open_summary/transform_image_info/short_date': {'returned': {'Group': {'path': {'str': "'summary'"},
                                                                         'url': {'NoneType': 'None'},
                                                                         'data': {'dict:dict': [[{'str': "'image_information'"},
                                                                                                 {'Group': {'path': {'str': "'summary/image_information'"},
                                                                                                            'url': {'NoneType': 'None'},
                                                                                                            'data': {'dict:dict': []},
                                                                                                            'attrs': {'dict:dict': [[{'str': "'ADateTime'"},
                                                                                                                                     {'str': "'2018--T13:09'"}]]}}}]]},
                                                                         'attrs': {'dict:dict': []}}}},
 'open_summary/transform_image_info/long_date': {'returned': {'Group': {'path': {'str': "'summary'"},
                                                                        'url': {'NoneType': 'None'},
                                                                        'data': {'dict:dict': [[{'str': "'image_information'"},
                                                                                                {'Group': {'path': {'str': "'summary/image_information'"},
                                                                                                           'url': {'NoneType': 'None'},
                                                                                                           'data': {'dict:dict': []},
                                                                                                           'attrs': {'dict:dict': [[{'str': "'ADateTime'"},
                                                                                                                                    {'str': "'2018-07-261234T13:09'"}]]}}}]]},
                                                                        'attrs': {'dict:dict': []}}}},
 'open_summary/transform_image_info/multiple_spaces': {'returned': {'Group': {'path': {'str': "'summary'"},
                                                                              'url': {'NoneType': 'None'},
                                                                              'data': {'dict:dict': [[{'str': "'image_information'"},
                                                                                                      {'Group': {'path': {'str': "'summary/image_information'"},
                                                                                                                 'url': {'NoneType': 'None'},
                                                                                                                 'data': {'dict:dict': []},
                                                                                                                 'attrs': {'dict:dict': [[{'str': "'ADateTime'"},
                                                                                                                                          {'str': "'2018-07-26T13:09:44'"}]]}}}]]},
                                                                              'attrs': {'dict:dict': []}}}},
 'open_summary/transform_image_info/not_a_date': {'returned': {'Group': {'path': {'str': "'summary'"},
                                                                         'url': {'NoneType': 'None'},
                                                                         'data': {'dict:dict': [[{'str': "'image_information'"},
                                                                                                 {'Group': {'path': {'str': "'summary/image_information'"},
                                                                                                            'url': {'NoneType': 'None'},
                                                                                                            'data': {'dict:dict': []},
                                                                                                            'attrs': {'dict:dict': [[{'str': "'ADateTime'"},
                                                                                                                                     {'str': "'abc--Tdef'"}]]}}}]]},
                                                                         'attrs': {'dict:dict': []}}}},
 'open_summary/transform_image_info/datetime_without_time': {'raised': {'type': 'builtins.ValueError',
                                                                        'args': {'tuple': [{'str': "'not "
                                                                                                   'enough '
                                                                                                   'values '
                                                                                                   'to '
                                                                                                   'unpack '
                                                                                                   '(expected '
                                                                                                   '2, '
                                                                                                   'got '
                                                                                                   "1)'"}]},
                                                                        'str': 'not enough values '
                                                                               'to unpack '
                                                                               '(expected 2, got '
                                                                               '1)',
                                                                        'cause': None,
                                                                        'context': None,
                                                                        'suppress_context': False}},
 'open_summary/transform_image_info/datetime_three_parts': {'raised': {'type': 'builtins.ValueError',
                                                                       'args': {'tuple': [{'str': "'too "
                                                                                                  'many '
                                                                                                  'values '
                                                                                                  'to '
                                                                                                  'unpack '
                                                                                                  '(expected '
                                                                                                  "2)'"}]},
                                                                       'str': 'too many values to '
                                                                              'unpack (expected 2)',
                                                                       'cause': None,
                                                                       'context': None,
                                                                       'suppress_context': False}},
 'open_summary/transform_image_info/datetime_empty': {'raised': {'type': 'builtins.ValueError',
                                                                 'args': {'tuple': [{'str': "'not "
                                                                                            'enough '
                                                                                            'values '
                                                                                            'to '
                                                                                            'unpack '
                                                                                            '(expected '
                                                                                            '2, '
                                                                                            'got '
                                                                                            "0)'"}]},
                                                                 'str': 'not enough values to '
                                                                        'unpack (expected 2, got '
                                                                        '0)',
                                                                 'cause': None,
                                                                 'context': None,
                                                                 'suppress_context': False}},
 'open_summary/transform_image_info/bad_float': {'raised': {'type': 'builtins.ValueError',
                                                            'args': {'tuple': [{'str': '"could not '
                                                                                       'convert '
                                                                                       'string to '
                                                                                       'float: '
                                                                                       '\'steep\'"'}]},
                                                            'str': 'could not convert string to '
                                                                   "float: 'steep'",
                                                            'cause': None,
                                                            'context': None,
                                                            'suppress_context': False}},
 'open_summary/transform_image_info/bad_float_then_bad_datetime': {'raised': {'type': 'builtins.ValueError',
                                                                              'args': {'tuple': [{'str': '"could '
                                                                                                         'not '
                                                                                                         'convert '
                                                                                                         'string '
                                                                                                         'to '
                                                                                                         'float: '
                                                                                                         '\'steep\'"'}]},
                                                                              'str': 'could not '
                                                                                     'convert '
                                                                                     'string to '
                                                                                     'float: '
                                                                                     "'steep'",
                                                                              'cause': None,
                                                                              'context': None,
                                                                              'suppress_context': False}},
 'open_summary/transform_image_info/bad_datetime_then_bad_float': {'raised': {'type': 'builtins.ValueError',
                                                                              'args': {'tuple': [{'str': "'not "
                                                                                                         'enough '
                                                                                                         'values '
                                                                                                         'to '
                                                                                                         'unpack '
                                                                                                         '(expected '
                                                                                                         '2, '
                                                                                                         'got '
                                                                                                         "0)'"}]},
                                                                              'str': 'not enough '
                                                                                     'values to '
                                                                                     'unpack '
                                                                                     '(expected 2, '
                                                                                     'got 0)',
                                                                              'cause': None,
                                                                              'context': None,
                                                                              'suppress_context': False}},
 'open_summary/transform_label_info/empty': {'returned': {'Group': {'path': {'str': "'summary'"},
                                                                    'url': {'NoneType': 'None'},
                                                                    'data': {'dict:dict': []},
                                                                    'attrs': {'dict:dict': []}}}},
 'open_summary/transform_label_info/sensor': {'returned': {'Group': {'path': {'str': "'summary'"},
                                                                     'url': {'NoneType': 'None'},
                                                                     'data': {'dict:dict': [[{'str': "'label_information'"},
                                                                                             {'Group': {'path': {'str': "'summary/label_information'"},
                                                                                                        'url': {'NoneType': 'None'},
                                                                                                        'data': {'dict:dict': []},
                                                                                                        'attrs': {'dict:dict': [[{'str': "'Sensor'"},
                                                                                                                                 {'str': "'SAR'"}]]}}}]]},
                                                                     'attrs': {'dict:dict': []}}}},
 'open_summary/transform_label_info/date': {'returned': {'Group': {'path': {'str': "'summary'"},
                                                                   'url': {'NoneType': 'None'},
                                                                   'data': {'dict:dict': [[{'str': "'label_information'"},
                                                                                           {'Group': {'path': {'str': "'summary/label_information'"},
                                                                                                      'url': {'NoneType': 'None'},
                                                                                                      'data': {'dict:dict': []},
                                                                                                      'attrs': {'dict:dict': [[{'str': "'ObservationDate'"},
                                                                                                                               {'str': "'2018-07-26'"}]]}}}]]},
                                                                   'attrs': {'dict:dict': []}}}},
 'open_summary/transform_label_info/short_date': {'returned': {'Group': {'path': {'str': "'summary'"},
                                                                         'url': {'NoneType': 'None'},
                                                                         'data': {'dict:dict': [[{'str': "'label_information'"},
                                                                                                 {'Group': {'path': {'str': "'summary/label_information'"},
                                                                                                            'url': {'NoneType': 'None'},
                                                                                                            'data': {'dict:dict': []},
                                                                                                            'attrs': {'dict:dict': [[{'str': "'ObservationDate'"},
                                                                                                                                     {'str': "'2018--'"}]]}}}]]},
                                                                         'attrs': {'dict:dict': []}}}},
 'open_summary/transform_label_info/empty_date': {'returned': {'Group': {'path': {'str': "'summary'"},
                                                                         'url': {'NoneType': 'None'},
                                                                         'data': {'dict:dict': [[{'str': "'label_information'"},
                                                                                                 {'Group': {'path': {'str': "'summary/label_information'"},
                                                                                                            'url': {'NoneType': 'None'},
                                                                                                            'data': {'dict:dict': []},
                                                                                                            'attrs': {'dict:dict': [[{'str': "'ObservationDate'"},
                                                                                                                                     {'str': "'--'"}]]}}}]]},
                                                                         'attrs': {'dict:dict': []}}}},
 'open_summary/transform_label_info/facility_scmo': {'returned': {'Group': {'path': {'str': "'summary'"},
                                                                            'url': {'NoneType': 'None'},
                                                                            'data': {'dict:dict': [[{'str': "'label_information'"},
                                                                                                    {'Group': {'path': {'str': "'summary/label_information'"},
                                                                                                               'url': {'NoneType': 'None'},
                                                                                                               'data': {'dict:dict': []},
                                                                                                               'attrs': {'dict:dict': [[{'str': "'ProcessFacility'"},
                                                                                                                                        {'str': "'spacecraft "
                                                                                                                                                'control '
                                                                                                                                                'mission '
                                                                                                                                                'operation '
                                                                                                                                                "system'"}]]}}}]]},
                                                                            'attrs': {'dict:dict': []}}}},
 'open_summary/transform_label_info/facility_eics': {'returned': {'Group': {'path': {'str': "'summary'"},
                                                                            'url': {'NoneType': 'None'},
                                                                            'data': {'dict:dict': [[{'str': "'label_information'"},
                                                                                                    {'Group': {'path': {'str': "'summary/label_information'"},
                                                                                                               'url': {'NoneType': 'None'},
                                                                                                               'data': {'dict:dict': []},
                                                                                                               'attrs': {'dict:dict': [[{'str': "'ProcessFacility'"},
                                                                                                                                        {'str': "'earth "
                                                                                                                                                'intelligence '
                                                                                                                                                'collection '
                                                                                                                                                'and '
                                                                                                                                                'sharing '
                                                                                                                                                "system'"}]]}}}]]},
                                                                            'attrs': {'dict:dict': []}}}},
 'open_summary/transform_label_info/typical': {'returned': {'Group': {'path': {'str': "'summary'"},
                                                                      'url': {'NoneType': 'None'},
                                                                      'data': {'dict:dict': [[{'str': "'label_information'"},
                                                                                              {'Group': {'path': {'str': "'summary/label_information'"},
                                                                                                         'url': {'NoneType': 'None'},
                                                                                                         'data': {'dict:dict': []},
                                                                                                         'attrs': {'dict:dict': [[{'str': "'Satellite'"},
                                                                                                                                  {'str': "'ALOS2'"}],
                                                                                                                                 [{'str': "'Sensor'"},
                                                                                                                                  {'str': "'SAR'"}],
                                                                                                                                 [{'str': "'ProcessLevel'"},
                                                                                                                                  {'str': "'1.1'"}],
                                                                                                                                 [{'str': "'ProcessFacility'"},
                                                                                                                                  {'str': "'spacecraft "
                                                                                                                                          'control '
                                                                                                                                          'mission '
                                                                                                                                          'operation '
                                                                                                                                          "system'"}],
                                                                                                                                 [{'str': "'ObservationDate'"},
                                                                                                                                  {'str': "'2018-07-26'"}]]}}}]]},
                                                                      'attrs': {'dict:dict': []}}}},
 'open_summary/transform_label_info/bad_facility': {'raised': {'type': 'builtins.ValueError',
                                                               'args': {'tuple': [{'str': '"invalid '
                                                                                          'code '
                                                                                          '\'JAXA\'"'}]},
                                                               'str': "invalid code 'JAXA'",
                                                               'cause': None,
                                                               'context': None,
                                                               'suppress_context': False}},
 "reformat_date/'20180726'": {'returned': {'str': "'2018-07-26'"}},
 "reformat_date/'2018'": {'returned': {'str': "'2018--'"}},
 "reformat_date/''": {'returned': {'str': "'--'"}},
 "reformat_date/'201807261'": {'returned': {'str': "'2018-07-261'"}},
 "reformat_date/['2', '0', '1', '8', '0', '7', '2', '6']": {'returned': {'str': '"[\'2\', \'0\', '
                                                                                "'1', '8']-['0', "
                                                                                "'7']-['2', "
                                                                                '\'6\']"'}},
 'reformat_date/None': {'raised': {'type': 'builtins.TypeError',
                                   'args': {'tuple': [{'str': '"\'NoneType\' object is not '
                                                              'subscriptable"'}]},
                                   'str': "'NoneType' object is not subscriptable",
                                   'cause': None,
                                   'context': None,
                                   'suppress_context': False}},
 "to_isoformat/'20180726 13:09:44.204'": {'returned': {'str': "'2018-07-26T13:09:44.204'"}},
 "to_isoformat/'20180726'": {'raised': {'type': 'builtins.ValueError',
                                        'args': {'tuple': [{'str': "'not enough values to unpack "
                                                                   "(expected 2, got 1)'"}]},
                                        'str': 'not enough values to unpack (expected 2, got 1)',
                                        'cause': None,
                                        'context': None,
                                        'suppress_context': False}},
 "to_isoformat/'a b c'": {'raised': {'type': 'builtins.ValueError',
                                     'args': {'tuple': [{'str': "'too many values to unpack "
                                                                "(expected 2)'"}]},
                                     'str': 'too many values to unpack (expected 2)',
                                     'cause': None,
                                     'context': None,
                                     'suppress_context': False}},
 "to_isoformat/'  a   b  '": {'returned': {'str': "'a--Tb'"}},
 "to_isoformat/''": {'raised': {'type': 'builtins.ValueError',
                                'args': {'tuple': [{'str': "'not enough values to unpack (expected "
                                                           "2, got 0)'"}]},
                                'str': 'not enough values to unpack (expected 2, got 0)',
                                'cause': None,
                                'context': None,
                                'suppress_context': False}},
 'to_isoformat/None': {'raised': {'type': 'builtins.AttributeError',
                                  'args': {'tuple': [{'str': '"\'NoneType\' object has no '
                                                             'attribute \'split\'"'}]},
                                  'str': "'NoneType' object has no attribute 'split'",
                                  'cause': None,
                                  'context': None,
                                  'suppress_context': False}}}


def compare():
    actual = collect()
    assert list(actual) == list(EXPECTED), "different set of cases"
    different = [name for name in actual if actual[name] != EXPECTED[name]]
    for name in different:
        print(f"MISMATCH {name}:\n  expected: {EXPECTED[name]}\n  actual:   {actual[name]}")
    return different, len(actual)


def test_equivalence():
    different, _ = compare()
    assert not different


if __name__ == "__main__":
    different, n_cases = compare()
    if different:
        print(f"FAILED: {len(different)} of {n_cases} cases differ")
        sys.exit(1)
    print(f"OK: {n_cases} cases identical to the recorded behaviour")
