"""Equivalence check for refactoring 3: results recorded from the unchanged code.

Run: cd /tmp/wt6/e44 && PYTHONPATH=/tmp/wt6/e44 /venv/bin/python _eq/3/equiv.py
(also collectable by pytest: `pytest _eq/3/equiv.py`).
"""
import datetime
import sys

from ceos_alos2.hierarchy import Group, Variable

try:
    ExceptionGroup
except NameError:  # pragma: no cover
    from exceptiongroup import ExceptionGroup


def canon(obj):
    """Canonical, type- and order-preserving text form of a result."""
    if isinstance(obj, Group):
        return (
            f"Group(path={obj.path!r}, url={obj.url!r}, "
            f"data={canon(obj.data)}, attrs={canon(obj.attrs)})"
        )
    if isinstance(obj, Variable):  # pragma: no cover
        return f"Variable(dims={obj.dims!r}, data={obj.data!r}, attrs={canon(obj.attrs)})"
    if type(obj) is dict:
        return "{" + ", ".join(f"{canon(k)}: {canon(v)}" for k, v in obj.items()) + "}"
    if type(obj) is list:
        return "[" + ", ".join(canon(v) for v in obj) + "]"
    if type(obj) is tuple:
        return "(" + ", ".join(canon(v) for v in obj) + ",)"
    if isinstance(obj, (str, bytes, int, float, bool, type(None), datetime.datetime)):
        return f"{type(obj).__name__}:{obj!r}"
    return f"<{type(obj).__qualname__}>:{obj!r}"


def canon_exc(e):
    text = f"{type(e).__name__}{e.args!r}"
    if isinstance(e, ExceptionGroup):
        text += "[" + "; ".join(canon_exc(sub) for sub in e.exceptions) + "]"
    if e.__cause__ is not None:
        text += f" from {canon_exc(e.__cause__)}"
    return text


def outcome(func, *args, **kwargs):
    try:
        result = func(*args, **kwargs)
    except BaseException as e:  # noqa: B902 - StopIteration etc. are part of the record
        return "RAISES " + canon_exc(e)
    return "RETURNS " + canon(result)


def check(cases, expected, run):
    """Run every case; with --record print the table, otherwise compare."""
    actual = {name: run(*case) for name, case in cases.items()}
    if "--record" in sys.argv:
        print("EXPECTED = {")
        for name, value in actual.items():
            print(f"    {name!r}: (\n        {value!r}\n    ),")
        print("}")
        return 0

    assert list(actual) == list(expected), "case list and EXPECTED are out of sync"
    failures = [name for name in cases if actual[name] != expected[name]]
    for name in failures:
        print(f"MISMATCH {name}\n  expected: {expected[name]}\n  actual:   {actual[name]}")
    assert not failures, f"{len(failures)} of {len(cases)} cases differ"
    print(f"ok: {len(cases)} cases identical to the recorded behaviour")
    return 0


import fsspec

from ceos_alos2 import summary

ODI = {"SceneId": "ALOS2290760600-191011", "SiteDateTime": "20191011 14:43:15"}
SCS = {"SceneID": "ALOS2290760600-191011", "SceneShift": "0"}
PDS = {
    "ProductID": "WWDR1.1__D",
    "ResamplingMethod": "NN",
    "UTM_ZoneNo": "53",
    "MapDirection": "MapNorth",
    "OrbitDataPrecision": "Precision",
    "AttitudeDataPrecision": "Onboard",
    "PixelSpacing": "25.000000",
}
IMG = {
    "SceneCenterDateTime": "20191011 14:43:15.525",
    "ImageSceneCenterLatitude": "30.385",
    "OffNadirAngle": "21.3",
}
PDI = {
    "ProductFormat": "CEOS",
    "CntOfL11ProductFileName": "4",
    "L11ProductFileName01": "VOL-ALOS2290760600-191011-WWDR1.1__D",
    "L11ProductFileName02": "LED-ALOS2290760600-191011-WWDR1.1__D",
    "L11ProductFileName03": "IMG-HH-ALOS2290760600-191011-WWDR1.1__D-F1",
    "L11ProductFileName04": "TRL-ALOS2290760600-191011-WWDR1.1__D",
    "BitPixel": "32",
    "NoOfPixels_1": " 9196",
    "NoOfLines_1": "60568",
    "ProductDataSize": "4187.5",
}
ACH = {"TimeCheck": "", "AttitudeCheck": "GOOD", "AbsoluteNavigationStatus": ""}
RAD = {"PracticeResultCode": "GOOD"}
LBI = {"Satellite": "ALOS2", "ObservationDate": "20191011", "ProcessFacility": "SCMO"}

FULL = {
    "odi": ODI,
    "scs": SCS,
    "pds": PDS,
    "img": IMG,
    "pdi": PDI,
    "ach": ACH,
    "rad": RAD,
    "lbi": LBI,
}


def as_text(sections):
    return "\n".join(
        f'{code.capitalize()}_{key}="{value}"'
        for code, section in sections.items()
        for key, value in section.items()
    )


CASES = {
    "empty": ("transform", {}),
    "full": ("transform", FULL),
    "reversed": ("transform", dict(reversed(list(FULL.items())))),
    "each_alone_odi": ("transform", {"odi": ODI}),
    "each_alone_scs": ("transform", {"scs": SCS}),
    "each_alone_pds": ("transform", {"pds": PDS}),
    "each_alone_img": ("transform", {"img": IMG}),
    "each_alone_pdi": ("transform", {"pdi": PDI}),
    "each_alone_ach": ("transform", {"ach": ACH}),
    "each_alone_rad": ("transform", {"rad": RAD}),
    "each_alone_lbi": ("transform", {"lbi": LBI}),
    "empty_sections": ("transform", {code: {} for code in FULL}),
    # sections without a transformer are passed through under their own name
    "unknown_section": ("transform", {"xyz": {"a": "1"}, "odi": ODI, "abc": {}}),
    "unknown_upper_case": ("transform", {"ODI": ODI, "Scs": SCS}),
    # a section that already carries the long name collides with the renamed one
    "collision_long_name_last": (
        "transform",
        {"rad": RAD, "ach": ACH, "result_information": {"other": "x"}},
    ),
    "collision_long_name_first": (
        "transform",
        {"result_information": {"other": "x"}, "ach": ACH, "rad": RAD},
    ),
    "long_names_only": ("transform", {"scene_specification": SCS, "autocheck": ACH}),
    # errors of the section transformers pass through unchanged; the first section fails
    "bad_scene_id": ("transform", {"odi": ODI, "scs": {"SceneID": "nope"}, "pds": PDS}),
    "bad_product_id": ("transform", {"pds": {"ProductID": "nope"}, "scs": {"SceneID": "nope"}}),
    "bad_float": ("transform", {"img": {"OffNadirAngle": "x"}, "lbi": {"ProcessFacility": "?"}}),
    "bad_facility": ("transform", {"lbi": {"ProcessFacility": "?"}, "img": {"OffNadirAngle": "x"}}),
    "bad_files": ("transform", {"pdi": {"L11ProductFileName01": "a"}}),
    "section_not_a_mapping": ("transform", {"scs": None}),
    "unknown_section_not_a_mapping": ("transform", {"xyz": "text", "n": 1}),
    "not_a_mapping": ("transform", None),
    # through the public entry point
    "open_full": ("open", as_text(FULL).encode()),
    "open_partial": ("open", as_text({"scs": SCS, "lbi": LBI, "xyz": {"k": "v"}}).encode()),
    "open_empty": ("open", b""),
    "open_invalid_line": ("open", b'Scs_SceneShift"0"'),
    "open_missing": ("open", None),
}


def transformed_twice(mapping):
    result = summary.transform_summary(mapping)
    if isinstance(mapping, dict):
        again = summary.transform_summary(mapping)
        assert canon(again) == canon(result) and again == result
    return result


def opened(content):
    fs = fsspec.filesystem("memory")
    fs.store.clear()
    if content is not None:
        fs.pipe_file("/product/summary.txt", content)
    else:
        fs.pipe_file("/product/other.txt", b"")
    mapper = fsspec.get_mapper("memory://product")
    return summary.open_summary(mapper, "summary.txt")


def run(kind, arg):
    func = {"transform": transformed_twice, "open": opened}[kind]
    before = canon(arg)
    result = outcome(func, arg)
    assert canon(arg) == before, "input was modified"
    return result

# fmt: off
EXPECTED = {
    'empty': (
        "RETURNS Group(path='summary', url=None, data={}, attrs={})"
    ),
    'full': (
        "RETURNS Group(path='summary', url=None, data={str:'ordering_information': Group(path='summary/ordering_information', url=None, data={}, attrs={str:'SceneId': str:'ALOS2290760600-191011', str:'SiteDateTime': str:'20191011 14:43:15'}), str:'scene_specification': Group(path='summary/scene_specification', url=None, data={}, attrs={str:'mission_name': str:'ALOS2', str:'orbit_accumulation': int:29076, str:'scene_frame': int:600, str:'date': str:'2019-10-11', str:'SceneShift': int:0}), str:'product_specification': Group(path='summary/product_specification', url=None, data={}, attrs={str:'observation_mode': str:'ScanSAR nominal 28MHz mode dual polarization', str:'observation_direction': str:'right looking', str:'processing_level': str:'level 1.1', str:'processing_option': str:'not specified', str:'map_projection': str:'not specified', str:'orbit_direction': str:'descending', str:'ResamplingMethod': str:'nearest-neighbor', str:'UTM_ZoneNo': int:53, str:'MapDirection': str:'MapNorth', str:'OrbitDataPrecision': str:'Precision', str:'AttitudeDataPrecision': str:'Onboard', str:'PixelSpacing': float:25.0}), str:'image_information': Group(path='summary/image_information', url=None, data={}, attrs={str:'SceneCenterDateTime': str:'2019-10-11T14:43:15.525', str:'ImageSceneCenterLatitude': float:30.385, str:'OffNadirAngle': float:21.3}), str:'product_information': Group(path='summary/product_information', url=None, data={str:'data_files': Group(path='summary/product_information/data_files', url=None, data={}, attrs={str:'volume_directory': str:'VOL-ALOS2290760600-191011-WWDR1.1__D', str:'sar_leader': str:'LED-ALOS2290760600-191011-WWDR1.1__D', str:'sar_imagery': [str:'IMG-HH-ALOS2290760600-191011-WWDR1.1__D-F1'], str:'sar_trailer': str:'TRL-ALOS2290760600-191011-WWDR1.1__D'}), str:'shapes': Group(path='summary/product_information/shapes', url=None, data={}, attrs={str:'1': (int:9196, int:60568,)})}, attrs={str:'ProductFormat': str:'CEOS', str:'BitPixel': int:32, str:'ProductDataSize': float:4187.5}), str:'autocheck': Group(path='summary/autocheck', url=None, data={}, attrs={str:'TimeCheck': str:'N/A', str:'AttitudeCheck': str:'GOOD', str:'AbsoluteNavigationStatus': str:'N/A'}), str:'result_information': Group(path='summary/result_information', url=None, data={}, attrs={str:'PracticeResultCode': str:'GOOD'}), str:'label_information': Group(path='summary/label_information', url=None, data={}, attrs={str:'Satellite': str:'ALOS2', str:'ObservationDate': str:'2019-10-11', str:'ProcessFacility': str:'spacecraft control mission operation system'})}, attrs={})"
    ),
    'reversed': (
        "RETURNS Group(path='summary', url=None, data={str:'label_information': Group(path='summary/label_information', url=None, data={}, attrs={str:'Satellite': str:'ALOS2', str:'ObservationDate': str:'2019-10-11', str:'ProcessFacility': str:'spacecraft control mission operation system'}), str:'result_information': Group(path='summary/result_information', url=None, data={}, attrs={str:'PracticeResultCode': str:'GOOD'}), str:'autocheck': Group(path='summary/autocheck', url=None, data={}, attrs={str:'TimeCheck': str:'N/A', str:'AttitudeCheck': str:'GOOD', str:'AbsoluteNavigationStatus': str:'N/A'}), str:'product_information': Group(path='summary/product_information', url=None, data={str:'data_files': Group(path='summary/product_information/data_files', url=None, data={}, attrs={str:'volume_directory': str:'VOL-ALOS2290760600-191011-WWDR1.1__D', str:'sar_leader': str:'LED-ALOS2290760600-191011-WWDR1.1__D', str:'sar_imagery': [str:'IMG-HH-ALOS2290760600-191011-WWDR1.1__D-F1'], str:'sar_trailer': str:'TRL-ALOS2290760600-191011-WWDR1.1__D'}), str:'shapes': Group(path='summary/product_information/shapes', url=None, data={}, attrs={str:'1': (int:9196, int:60568,)})}, attrs={str:'ProductFormat': str:'CEOS', str:'BitPixel': int:32, str:'ProductDataSize': float:4187.5}), str:'image_information': Group(path='summary/image_information', url=None, data={}, attrs={str:'SceneCenterDateTime': str:'2019-10-11T14:43:15.525', str:'ImageSceneCenterLatitude': float:30.385, str:'OffNadirAngle': float:21.3}), str:'product_specification': Group(path='summary/product_specification', url=None, data={}, attrs={str:'observation_mode': str:'ScanSAR nominal 28MHz mode dual polarization', str:'observation_direction': str:'right looking', str:'processing_level': str:'level 1.1', str:'processing_option': str:'not specified', str:'map_projection': str:'not specified', str:'orbit_direction': str:'descending', str:'ResamplingMethod': str:'nearest-neighbor', str:'UTM_ZoneNo': int:53, str:'MapDirection': str:'MapNorth', str:'OrbitDataPrecision': str:'Precision', str:'AttitudeDataPrecision': str:'Onboard', str:'PixelSpacing': float:25.0}), str:'scene_specification': Group(path='summary/scene_specification', url=None, data={}, attrs={str:'mission_name': str:'ALOS2', str:'orbit_accumulation': int:29076, str:'scene_frame': int:600, str:'date': str:'2019-10-11', str:'SceneShift': int:0}), str:'ordering_information': Group(path='summary/ordering_information', url=None, data={}, attrs={str:'SceneId': str:'ALOS2290760600-191011', str:'SiteDateTime': str:'20191011 14:43:15'})}, attrs={})"
    ),
    'each_alone_odi': (
        "RETURNS Group(path='summary', url=None, data={str:'ordering_information': Group(path='summary/ordering_information', url=None, data={}, attrs={str:'SceneId': str:'ALOS2290760600-191011', str:'SiteDateTime': str:'20191011 14:43:15'})}, attrs={})"
    ),
    'each_alone_scs': (
        "RETURNS Group(path='summary', url=None, data={str:'scene_specification': Group(path='summary/scene_specification', url=None, data={}, attrs={str:'mission_name': str:'ALOS2', str:'orbit_accumulation': int:29076, str:'scene_frame': int:600, str:'date': str:'2019-10-11', str:'SceneShift': int:0})}, attrs={})"
    ),
    'each_alone_pds': (
        "RETURNS Group(path='summary', url=None, data={str:'product_specification': Group(path='summary/product_specification', url=None, data={}, attrs={str:'observation_mode': str:'ScanSAR nominal 28MHz mode dual polarization', str:'observation_direction': str:'right looking', str:'processing_level': str:'level 1.1', str:'processing_option': str:'not specified', str:'map_projection': str:'not specified', str:'orbit_direction': str:'descending', str:'ResamplingMethod': str:'nearest-neighbor', str:'UTM_ZoneNo': int:53, str:'MapDirection': str:'MapNorth', str:'OrbitDataPrecision': str:'Precision', str:'AttitudeDataPrecision': str:'Onboard', str:'PixelSpacing': float:25.0})}, attrs={})"
    ),
    'each_alone_img': (
        "RETURNS Group(path='summary', url=None, data={str:'image_information': Group(path='summary/image_information', url=None, data={}, attrs={str:'SceneCenterDateTime': str:'2019-10-11T14:43:15.525', str:'ImageSceneCenterLatitude': float:30.385, str:'OffNadirAngle': float:21.3})}, attrs={})"
    ),
    'each_alone_pdi': (
        "RETURNS Group(path='summary', url=None, data={str:'product_information': Group(path='summary/product_information', url=None, data={str:'data_files': Group(path='summary/product_information/data_files', url=None, data={}, attrs={str:'volume_directory': str:'VOL-ALOS2290760600-191011-WWDR1.1__D', str:'sar_leader': str:'LED-ALOS2290760600-191011-WWDR1.1__D', str:'sar_imagery': [str:'IMG-HH-ALOS2290760600-191011-WWDR1.1__D-F1'], str:'sar_trailer': str:'TRL-ALOS2290760600-191011-WWDR1.1__D'}), str:'shapes': Group(path='summary/product_information/shapes', url=None, data={}, attrs={str:'1': (int:9196, int:60568,)})}, attrs={str:'ProductFormat': str:'CEOS', str:'BitPixel': int:32, str:'ProductDataSize': float:4187.5})}, attrs={})"
    ),
    'each_alone_ach': (
        "RETURNS Group(path='summary', url=None, data={str:'autocheck': Group(path='summary/autocheck', url=None, data={}, attrs={str:'TimeCheck': str:'N/A', str:'AttitudeCheck': str:'GOOD', str:'AbsoluteNavigationStatus': str:'N/A'})}, attrs={})"
    ),
    'each_alone_rad': (
        "RETURNS Group(path='summary', url=None, data={str:'result_information': Group(path='summary/result_information', url=None, data={}, attrs={str:'PracticeResultCode': str:'GOOD'})}, attrs={})"
    ),
    'each_alone_lbi': (
        "RETURNS Group(path='summary', url=None, data={str:'label_information': Group(path='summary/label_information', url=None, data={}, attrs={str:'Satellite': str:'ALOS2', str:'ObservationDate': str:'2019-10-11', str:'ProcessFacility': str:'spacecraft control mission operation system'})}, attrs={})"
    ),
    'empty_sections': (
        "RETURNS Group(path='summary', url=None, data={str:'ordering_information': Group(path='summary/ordering_information', url=None, data={}, attrs={}), str:'scene_specification': Group(path='summary/scene_specification', url=None, data={}, attrs={}), str:'product_specification': Group(path='summary/product_specification', url=None, data={}, attrs={}), str:'image_information': Group(path='summary/image_information', url=None, data={}, attrs={}), str:'product_information': Group(path='summary/product_information', url=None, data={}, attrs={}), str:'autocheck': Group(path='summary/autocheck', url=None, data={}, attrs={}), str:'result_information': Group(path='summary/result_information', url=None, data={}, attrs={}), str:'label_information': Group(path='summary/label_information', url=None, data={}, attrs={})}, attrs={})"
    ),
    'unknown_section': (
        "RETURNS Group(path='summary', url=None, data={str:'xyz': {str:'a': str:'1'}, str:'ordering_information': Group(path='summary/ordering_information', url=None, data={}, attrs={str:'SceneId': str:'ALOS2290760600-191011', str:'SiteDateTime': str:'20191011 14:43:15'}), str:'abc': {}}, attrs={})"
    ),
    'unknown_upper_case': (
        "RETURNS Group(path='summary', url=None, data={str:'ODI': {str:'SceneId': str:'ALOS2290760600-191011', str:'SiteDateTime': str:'20191011 14:43:15'}, str:'Scs': {str:'SceneID': str:'ALOS2290760600-191011', str:'SceneShift': str:'0'}}, attrs={})"
    ),
    'collision_long_name_last': (
        "RETURNS Group(path='summary', url=None, data={str:'result_information': {str:'other': str:'x'}, str:'autocheck': Group(path='summary/autocheck', url=None, data={}, attrs={str:'TimeCheck': str:'N/A', str:'AttitudeCheck': str:'GOOD', str:'AbsoluteNavigationStatus': str:'N/A'})}, attrs={})"
    ),
    'collision_long_name_first': (
        "RETURNS Group(path='summary', url=None, data={str:'result_information': Group(path='summary/result_information', url=None, data={}, attrs={str:'PracticeResultCode': str:'GOOD'}), str:'autocheck': Group(path='summary/autocheck', url=None, data={}, attrs={str:'TimeCheck': str:'N/A', str:'AttitudeCheck': str:'GOOD', str:'AbsoluteNavigationStatus': str:'N/A'})}, attrs={})"
    ),
    'long_names_only': (
        "RETURNS Group(path='summary', url=None, data={str:'scene_specification': {str:'SceneID': str:'ALOS2290760600-191011', str:'SceneShift': str:'0'}, str:'autocheck': {str:'TimeCheck': str:'', str:'AttitudeCheck': str:'GOOD', str:'AbsoluteNavigationStatus': str:''}}, attrs={})"
    ),
    'bad_scene_id': (
        "RAISES ValueError('invalid scene id: nope',)"
    ),
    'bad_product_id': (
        "RAISES ValueError('invalid product id: nope',)"
    ),
    'bad_float': (
        'RAISES ValueError("could not convert string to float: \'x\'",)'
    ),
    'bad_facility': (
        'RAISES ValueError("invalid code \'?\'",)'
    ),
    'bad_files': (
        "RAISES ValueError('not enough values to unpack (expected at least 3, got 1)',)"
    ),
    'section_not_a_mapping': (
        'RAISES AttributeError("\'NoneType\' object has no attribute \'items\'",)'
    ),
    'unknown_section_not_a_mapping': (
        "RETURNS Group(path='summary', url=None, data={str:'xyz': str:'text', str:'n': int:1}, attrs={})"
    ),
    'not_a_mapping': (
        'RAISES AttributeError("\'NoneType\' object has no attribute \'items\'",)'
    ),
    'open_full': (
        "RETURNS Group(path='summary', url=None, data={str:'ordering_information': Group(path='summary/ordering_information', url=None, data={}, attrs={str:'SceneId': str:'ALOS2290760600-191011', str:'SiteDateTime': str:'20191011 14:43:15'}), str:'scene_specification': Group(path='summary/scene_specification', url=None, data={}, attrs={str:'mission_name': str:'ALOS2', str:'orbit_accumulation': int:29076, str:'scene_frame': int:600, str:'date': str:'2019-10-11', str:'SceneShift': int:0}), str:'product_specification': Group(path='summary/product_specification', url=None, data={}, attrs={str:'observation_mode': str:'ScanSAR nominal 28MHz mode dual polarization', str:'observation_direction': str:'right looking', str:'processing_level': str:'level 1.1', str:'processing_option': str:'not specified', str:'map_projection': str:'not specified', str:'orbit_direction': str:'descending', str:'ResamplingMethod': str:'nearest-neighbor', str:'UTM_ZoneNo': int:53, str:'MapDirection': str:'MapNorth', str:'OrbitDataPrecision': str:'Precision', str:'AttitudeDataPrecision': str:'Onboard', str:'PixelSpacing': float:25.0}), str:'image_information': Group(path='summary/image_information', url=None, data={}, attrs={str:'SceneCenterDateTime': str:'2019-10-11T14:43:15.525', str:'ImageSceneCenterLatitude': float:30.385, str:'OffNadirAngle': float:21.3}), str:'product_information': Group(path='summary/product_information', url=None, data={str:'data_files': Group(path='summary/product_information/data_files', url=None, data={}, attrs={str:'volume_directory': str:'VOL-ALOS2290760600-191011-WWDR1.1__D', str:'sar_leader': str:'LED-ALOS2290760600-191011-WWDR1.1__D', str:'sar_imagery': [str:'IMG-HH-ALOS2290760600-191011-WWDR1.1__D-F1'], str:'sar_trailer': str:'TRL-ALOS2290760600-191011-WWDR1.1__D'}), str:'shapes': Group(path='summary/product_information/shapes', url=None, data={}, attrs={str:'1': (int:9196, int:60568,)})}, attrs={str:'ProductFormat': str:'CEOS', str:'BitPixel': int:32, str:'ProductDataSize': float:4187.5}), str:'autocheck': Group(path='summary/autocheck', url=None, data={}, attrs={str:'TimeCheck': str:'N/A', str:'AttitudeCheck': str:'GOOD', str:'AbsoluteNavigationStatus': str:'N/A'}), str:'result_information': Group(path='summary/result_information', url=None, data={}, attrs={str:'PracticeResultCode': str:'GOOD'}), str:'label_information': Group(path='summary/label_information', url=None, data={}, attrs={str:'Satellite': str:'ALOS2', str:'ObservationDate': str:'2019-10-11', str:'ProcessFacility': str:'spacecraft control mission operation system'})}, attrs={})"
    ),
    'open_partial': (
        "RETURNS Group(path='summary', url=None, data={str:'scene_specification': Group(path='summary/scene_specification', url=None, data={}, attrs={str:'mission_name': str:'ALOS2', str:'orbit_accumulation': int:29076, str:'scene_frame': int:600, str:'date': str:'2019-10-11', str:'SceneShift': int:0}), str:'label_information': Group(path='summary/label_information', url=None, data={}, attrs={str:'Satellite': str:'ALOS2', str:'ObservationDate': str:'2019-10-11', str:'ProcessFacility': str:'spacecraft control mission operation system'}), str:'xyz': {str:'k': str:'v'}}, attrs={})"
    ),
    'open_empty': (
        "RETURNS Group(path='summary', url=None, data={}, attrs={})"
    ),
    'open_invalid_line': (
        "RAISES ExceptionGroup('failed to parse the summary', [ValueError('line 00: invalid line')])[ValueError('line 00: invalid line',)]"
    ),
    'open_missing': (
        "RAISES OSError('Cannot find the summary file (`summary.txt`). Make sure the dataset at /product is complete and in the JAXA CEOS format.',) from KeyError('summary.txt',) from FileNotFoundError('/product/summary.txt',) from KeyError('/product/summary.txt',)"
    ),
}
# fmt: on


def test_equivalence():
    check(CASES, EXPECTED, run)


if __name__ == "__main__":
    check(CASES, EXPECTED, run)
